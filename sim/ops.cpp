#include "ops.h"
#include "cry.h"
#include <cstring>

#ifndef WENCRY_SIM_VARIANT
#define WENCRY_SIM_VARIANT unknown
#endif
#define SIM_STR2(x) #x
#define SIM_STR(x) SIM_STR2(x)
#ifndef WENCRY_VERIF_HBUF_BLOCKS
#define WENCRY_VERIF_HBUF_BLOCKS 0x80000
#endif

size_t build_chunk_bytes() { return iobuffer::sum; }
size_t build_hash_refill_bytes() { return (size_t)(WENCRY_VERIF_HBUF_BLOCKS) * 64; }
const char *build_variant() { return SIM_STR(WENCRY_SIM_VARIANT); }

long est_steps(long nbytes, int T) {
  long ch = (long)iobuffer::sum;
  long blocks = nbytes / 16 + 2, chunks = nbytes / ch + 2;
  return 6 * blocks + 30 * chunks + 40 * T + 100;
}

// ---------------------------------------------------------------- cipher stream spies
struct SpyReg {
  std::vector<std::vector<SpyCall>> calls;
  std::vector<Aesmode *> inners;
  bool active = false;
};
static SpyReg g_spy;

class SpyMode : public Aesmode {
  Aesmode *inner;
  int idx;
public:
  SpyMode(Aesmode *inner, int idx, const u8_t *iv) : Aesmode(iv), inner(inner), idx(idx) {}
  virtual void runcry(u8_t *block) override {
    SpyCall c;
    simsched::spy_event(true, idx);
    memcpy(c.in, block, 16);
    inner->runcry(block);
    memcpy(c.out, block, 16);
    c.tid = (uint8_t)simsched::current_tid();
    g_spy.calls[idx].push_back(c);
    simsched::spy_event(false, idx);
  }
};

extern "C" Aesmode *__real__ZN10AesFactory15createCryMasterEbh(AesFactory *self, bool isenc, unsigned char type);
extern "C" Aesmode *__wrap__ZN10AesFactory15createCryMasterEbh(AesFactory *self, bool isenc, unsigned char type) {
  Aesmode *inner = __real__ZN10AesFactory15createCryMasterEbh(self, isenc, type);
  if (!g_spy.active || inner == NULL) return inner;
  static const u8_t zero[16] = {0};
  int idx = (int)g_spy.calls.size();
  g_spy.calls.emplace_back();
  g_spy.inners.push_back(inner);
  return new SpyMode(inner, idx, zero);
}

extern "C" void wencry_verif_event(int kind, const void *p1, const void *p2, unsigned long n) {
  simsched::hook_event(kind, p1, p2, n);
}

static bool ctrl_is_ready(const void *c) { return ((const bufferctrl *)c)->cmpstate(READY); }

OpResult run_op(const OpSpec &op) {
  OpResult r;
  simsched::monitor_set_ready_probe(ctrl_is_ready);
  simsched::monitor_set_bufsize(sizeof(iobuffer));
  FILE *fin = NULL, *fout = NULL;
  if (op.fin) {
    op.fin->short_io = op.short_io;
    op.fin->io_rng.reseed(Rng::mix(op.io_seed, 11));
    op.fin->id = 0;
    fin = sim_fopen(op.fin, "rb", op.inbuf);
  }
  if (op.fout) {
    op.fout->short_io = op.short_io;
    op.fout->io_rng.reseed(Rng::mix(op.io_seed, 22));
    op.fout->id = 1;
    // bound the memory a defective export can consume (a correct operation writes at most input + header + one block)
    if (op.fout->size_cap < 0) op.fout->size_cap = (long)(op.fin ? op.fin->data.size() : 0) + 4096;
    fout = sim_fopen(op.fout, "wb+", op.outbuf);
  }
  g_spy.calls.clear();
  g_spy.inners.clear();
  g_spy.active = true;
  // The key is handed over in one of two long-lived buffers, like a caller that keeps its key in one place and
  // changes it there: state remembered by POINTER (rather than by value) across operations then shows.
  static u8_t g_keybufs[2][16];
  u8_t *key = g_keybufs[op.keyslot & 1];
  memcpy(key, op.key, 16);
  // the seed is a C string of any length (the CLI hands over 256 random bytes that need not be terminated)
  std::vector<u8_t> rbuf_v(op.seedstr.size() + 8, 0);
  if (!op.seedstr.empty()) memcpy(rbuf_v.data(), op.seedstr.data(), op.seedstr.size());
  u8_t *rbuf = rbuf_v.data();
  simsched::session_begin(op.sc);
  {
    Settings st(op.kind == OP_ENC ? (char)op.cmode : (char)-1, op.kind == OP_ENC ? (char)op.hmode : (char)-1, !op.echo);
    runcrypt rc(fin, fout, key, st, (u8_t)op.T);
    if (op.kind == OP_ENC) r.ret = rc.execute_encrypt(op.fsize, rbuf);
    else if (op.kind == OP_DEC) r.ret = rc.execute_decrypt(op.fsize);
    else r.ret = rc.execute_verify(op.fsize);
  }
  r.sr = simsched::session_end();
  g_spy.active = false;
  r.spy = std::move(g_spy.calls);
  g_spy.calls.clear();
  // the repository deletes the SpyMode objects through Aesmode* (no virtual destructor): the inner ones are ours
  for (Aesmode *m : g_spy.inners) delete m;
  g_spy.inners.clear();
  // runcrypt::over() closes both streams on the normal paths; with fin == NULL it returns early and leaves `out` open
  if (op.fin && !op.fin->closed && fin) fclose(fin);
  if (op.fout && !op.fout->closed && fout) fclose(fout);
  return r;
}
