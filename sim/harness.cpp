#include "harness.h"
#include <sstream>
#include <fstream>
#include <cstring>
#include <cstdio>

Stats g_stats;
Ctx g_ctx;

std::string hexs(const uint8_t *p, size_t n) {
  static const char *d = "0123456789abcdef";
  std::string s;
  s.reserve(n * 2);
  for (size_t i = 0; i < n; i++) { s.push_back(d[p[i] >> 4]); s.push_back(d[p[i] & 15]); }
  return s;
}
static Bytes unhexs(const std::string &h) {
  Bytes r;
  auto v = [](char c) { return c <= '9' ? c - '0' : (c | 32) - 'a' + 10; };
  for (size_t i = 0; i + 1 < h.size(); i += 2) r.push_back((uint8_t)(v(h[i]) * 16 + v(h[i + 1])));
  return r;
}

static void ser_rec(std::ostringstream &o, const char *tag, const Rec &r) {
  o << tag << ' ' << r.kind << ' ' << r.a.size();
  for (long v : r.a) o << ' ' << v;
  o << ' ' << (r.data.empty() ? std::string("-") : hexs(r.data)) << '\n';
}

std::string scn_serialize(const Scn &s) {
  std::ostringstream o;
  o << "wencry-sim-replay 1\n";
  o << "prop " << s.prop << "\n" << "tier " << (s.tier.empty() ? "quick" : s.tier) << "\n" << "seed " << s.seed << "\n" << "index " << s.index << "\n";
  for (auto &kv : s.i) o << "i " << kv.first << ' ' << kv.second << '\n';
  for (auto &kv : s.b) o << "b " << kv.first << ' ' << (kv.second.empty() ? std::string("-") : hexs(kv.second)) << '\n';
  for (auto &r : s.faults) ser_rec(o, "fault", r);
  for (auto &r : s.ops) ser_rec(o, "op", r);
  for (auto &kv : s.dec) {
    o << "dec " << kv.first << ' ' << kv.second.size();
    for (int v : kv.second) o << ' ' << v;
    o << '\n';
  }
  o << "end\n";
  return o.str();
}

static bool parse_rec(std::istringstream &ls, Rec &r) {
  size_t n;
  if (!(ls >> r.kind >> n)) return false;
  r.a.resize(n);
  for (size_t k = 0; k < n; k++) if (!(ls >> r.a[k])) return false;
  std::string h;
  if (!(ls >> h)) return false;
  if (h != "-") r.data = unhexs(h);
  return true;
}

bool scn_parse(const std::string &text, Scn &s) {
  std::istringstream in(text);
  std::string line;
  bool hdr = false, end = false;
  while (std::getline(in, line)) {
    if (line.empty() || line[0] == '#') continue;
    std::istringstream ls(line);
    std::string tag;
    ls >> tag;
    if (tag == "wencry-sim-replay") hdr = true;
    else if (tag == "prop") ls >> s.prop;
    else if (tag == "tier") ls >> s.tier;
    else if (tag == "seed") ls >> s.seed;
    else if (tag == "index") ls >> s.index;
    else if (tag == "i") { std::string k; long v; if (!(ls >> k >> v)) return false; s.i[k] = v; }
    else if (tag == "b") { std::string k, h; if (!(ls >> k >> h)) return false; s.b[k] = (h == "-") ? Bytes() : unhexs(h); }
    else if (tag == "fault") { Rec r; if (!parse_rec(ls, r)) return false; s.faults.push_back(r); }
    else if (tag == "op") { Rec r; if (!parse_rec(ls, r)) return false; s.ops.push_back(r); }
    else if (tag == "dec") {
      int slot; size_t n;
      if (!(ls >> slot >> n)) return false;
      std::vector<int> v(n);
      for (size_t k = 0; k < n; k++) if (!(ls >> v[k])) return false;
      s.dec[slot] = v;
    } else if (tag == "end") end = true;
  }
  return hdr && end && !s.prop.empty();
}

bool scn_load(const std::string &path, Scn &s) {
  std::ifstream f(path);
  if (!f) return false;
  std::stringstream ss;
  ss << f.rdbuf();
  return scn_parse(ss.str(), s);
}
bool scn_save(const std::string &path, const Scn &s) {
  std::ofstream f(path);
  if (!f) return false;
  f << scn_serialize(s);
  return (bool)f;
}

std::string scn_summary(const Scn &s) {
  std::ostringstream o;
  o << s.prop << "#" << s.index;
  for (auto &kv : s.i) {
    const std::string &k = kv.first;
    if (k.size() >= 2 && (k[0] == 's') && (k[1] == 's')) continue;   // schedule seeds are noise here
    if (k == "pseed" || k == "ioseed") continue;
    o << ' ' << k << '=' << kv.second;
  }
  for (auto &r : s.faults) {
    o << " fault:" << r.kind << '(';
    for (size_t k = 0; k < r.a.size(); k++) o << (k ? "," : "") << r.a[k];
    o << ')';
  }
  if (!s.ops.empty()) {
    o << " ops:";
    for (auto &r : s.ops) o << r.kind << ',';
  }
  return o.str();
}

void Stats::absorb(const simsched::SchedResult &r) {
  c["sched.steps"] += r.steps;
  c["sched.switches"] += r.switches;
  c["sched.preemptions"] += r.preemptions;
  if (r.spurious_fired) c["fault.spurious_wakeup"] += r.spurious_fired;
  if (r.notify_victim_choices) c["fault.notify_victim_choice"] += r.notify_victim_choices;
  if (r.timeouts_fired) c["fault.timeout_fired"] += r.timeouts_fired;
  c["sched.threads_created"] += r.threads_created;
  if (r.probe_look_before_first_load) c["probe.look_at_never_filled_buffer"] += r.probe_look_before_first_load;
  if (r.probe_io_between_look_and_use) c["probe.io_between_look_and_use"] += r.probe_io_between_look_and_use;
  if (r.probe_spurious_consumed) c["probe.spurious_consumed"] += r.probe_spurious_consumed;
  if (r.preemptions > 0) c["sched.ops_with_preemption"]++;
  c["sched.ops"]++;
  c["sched.decision_points"] += r.decision_points;
  if (r.mem_accesses) { c["sched.mem_accesses_instrumented"] += r.mem_accesses; c["sched.mem_sched_points"] += r.mem_sched_points; }
  distinct_traces.insert(r.trace_hash);
  distinct_sigs.insert(r.sync_sig);
}

// ---------------------------------------------------------------- generators

Bytes make_plain(long len, uint64_t pseed, int ptype, size_t CH) {
  Bytes p((size_t)len);
  Rng g(Rng::mix(pseed, 77));
  switch (ptype) {
  case 1: memset(p.data(), 'a', p.size()); break;
  case 2: { // every chunk equal to the first one (equal plaintext chunks on different streams)
    Bytes c(CH);
    g.bytes(c.data(), CH);
    for (long k = 0; k < len; k++) p[k] = c[k % CH];
    break;
  }
  case 3: break; // zeros
  case 4: { // every 16-byte block equal
    uint8_t blk[16];
    g.bytes(blk, 16);
    for (long k = 0; k < len; k++) p[k] = blk[k % 16];
    break;
  }
  default: g.bytes(p.data(), p.size());
  }
  return p;
}

long pick_len(Rng &g, size_t CH, int T) {
  long ch = (long)CH;
  switch (g.below(8)) {
  case 0: { static const long small[] = {0, 1, 15, 16, 17, 31, 32, 33}; return small[g.below(8)]; }
  case 1: case 2: case 3: { // around chunk multiples: n mod CH in [CH-17, CH+1]
    long m = 1 + (long)g.below(2 * T + 2);
    long n = m * ch + g.range(-17, 1);
    return n < 0 ? 0 : n;
  }
  case 4: { long n = (long)T * ch + g.range(-1, 1); return n < 0 ? 0 : n; }
  default: return (long)g.below((3 * T + 2) * ch + 1);
  }
}

void pick_sched(Rng &g, Scn &s, int slot, int T, bool allow_faults) {
  std::string k = std::to_string(slot);
  int st;
  long sp = 0;
  switch (g.below(10)) {
  case 0: st = simsched::ST_RR; break;
  case 1: case 2: case 3: st = simsched::ST_UNIFORM; break;
  case 4: case 5: { st = simsched::ST_STICKY; static const long ps[] = {500, 900, 990, 9999}; sp = ps[g.below(4)]; break; }
  case 6: st = simsched::ST_PCT; sp = 1 + g.below(4); break;
  case 7: st = simsched::ST_STARVE; sp = g.below(T + 1); break;
  default: st = simsched::ST_HOOKBIAS; break;
  }
  if (const char *f = getenv("SIM_FORCE_STRATEGY")) {   // experiments only (tools/strategy_experiment.sh); never set by the checks
    st = atoi(f);
    if (st == simsched::ST_STICKY) sp = 900;
    if (st == simsched::ST_PCT) sp = 3;
    if (st == simsched::ST_STARVE) sp = (long)g.below(T + 1);
  }
  s.i["st" + k] = st;
  s.i["sp" + k] = sp;
  s.i["ss" + k] = (long)(g.next() >> 2);
  s.i["sw" + k] = (allow_faults && g.chance(0.6)) ? 1 + (long)g.below(8) : 0;
}

void enum_sched(Rng &g, Scn &s, int slot, long j) {
  std::string k = std::to_string(slot);
  s.i["st" + k] = simsched::ST_ENUM;
  s.i["sp" + k] = 0;
  s.i["ss" + k] = 1;
  s.i["sw" + k] = 0;
  if (j < ENUM_SINGLE) {
    s.i["ea" + k] = j / 3; s.i["eb" + k] = j % 3;
    s.i["ec" + k] = -1; s.i["ed" + k] = 0;
  } else if (j < ENUM_SINGLE + ENUM_SPUR) {
    // one spurious wake-up at decision index q/3 of waiter q%3, no forced preemption (every single wake-up position)
    long q = j - ENUM_SINGLE;
    s.i["ea" + k] = -1; s.i["ec" + k] = -1;
    s.i["ee" + k] = q / 3; s.i["ef" + k] = q % 3;
    s.i["sw" + k] = 1;
  } else {
    // two events at seeded positions: two preemptions, or one preemption and one spurious wake-up
    s.i["ea" + k] = (long)g.below(ENUM_MAXK * 2 / 3); s.i["eb" + k] = (long)g.below(3);
    if (g.chance(0.5)) { s.i["ec" + k] = (long)g.below(ENUM_MAXK * 2 / 3); s.i["ed" + k] = (long)g.below(3); }
    else { s.i["ec" + k] = -1; s.i["ee" + k] = (long)g.below(ENUM_MAXK * 2 / 3); s.i["ef" + k] = (long)g.below(3); s.i["sw" + k] = 1; }
  }
}

simsched::SchedConfig sc_canonical(long nbytes, int T) {
  simsched::SchedConfig c;
  c.strategy = simsched::ST_RR;
  c.est_steps = est_steps(nbytes, T);
  c.step_budget = 200 * c.est_steps + 20000;
  return c;
}

simsched::SchedConfig sc_for(const Scn &s, int slot, long nbytes, int T) {
  std::string k = std::to_string(slot);
  simsched::SchedConfig c;
  c.strategy = (int)s.geti("st" + k, simsched::ST_RR);
  long sp = s.geti("sp" + k, 0);
  if (c.strategy == simsched::ST_STICKY) c.sticky_p = sp >= 9999 ? 0.9999 : sp / 1000.0;
  if (c.strategy == simsched::ST_PCT) c.pct_depth = (int)std::max<long>(1, sp);
  if (c.strategy == simsched::ST_STARVE) c.starve_tid = (int)sp;
  if (c.strategy == simsched::ST_ENUM) {
    c.enum_k[0] = s.geti("ea" + k, -1); c.enum_c[0] = (int)s.geti("eb" + k, 0);
    c.enum_k[1] = s.geti("ec" + k, -1); c.enum_c[1] = (int)s.geti("ed" + k, 0);
    c.enum_spur_k = s.geti("ee" + k, -1); c.enum_spur_c = (int)s.geti("ef" + k, 0);
    if (c.enum_spur_k >= 0) c.max_spurious = std::max(c.max_spurious, 1);   // replay of the recorded decisions needs the budget
  }
  c.seed = (uint64_t)s.geti("ss" + k, 1);
  c.max_spurious = (int)s.geti("sw" + k, 0);
  c.p_spurious = 0.03;
  c.est_steps = est_steps(nbytes, T);
  c.step_budget = 200 * c.est_steps + 20000 + 4 * c.max_spurious;
  auto it = s.dec.find(slot);
  if (it != s.dec.end()) {
    c.use_replay = true;
    c.replay = it->second;
  }
  return c;
}

void fill_base(Rng &g, Scn &s, int Tmax_small) {
  s.i["cm"] = (long)g.below(5);
  s.i["hm"] = (long)g.below(3);
  s.i["pseed"] = (long)(g.next() >> 2);
  s.i["ptype"] = g.chance(0.8) ? 0 : (long)g.below(5);
  static const long bufs[] = {-1, 0, 16, 64, 4096};
  s.i["inb"] = bufs[g.below(5)];
  s.i["outb"] = bufs[g.below(5)];
  s.i["sio"] = g.chance(0.5) ? 1 : 0;
  s.i["ioseed"] = (long)(g.next() >> 2);
  s.i["fz"] = g.chance(0.2) ? 1 : 0;
  s.i["kb"] = (long)g.below(2);
  s.i["echo"] = g.chance(0.25) ? 1 : 0;   // the command line's default: progress, mode names and results are printed
  Bytes key(16);
  g.bytes(key.data(), 16);
  switch (g.below(24)) {   // a few structured keys: C-string style handling of the key, sign / zero byte slips
  case 0: key.assign(16, 0x00); break;
  case 1: key.assign(16, 0xFF); break;
  case 2: key[0] = 0; break;
  case 3: key[g.below(16)] = 0; break;
  case 4: key[8] = 0; key[15] = 0; break;
  case 5: for (auto &c : key) c |= 0x80; break;
  default: break;
  }
  s.b["key"] = key;
  // seed lengths: mostly short; sometimes the edges that matter for a hashed, length-scanned C string
  static const size_t edge[] = {0, 1, 55, 56, 63, 64, 65, 119, 120, 255, 256, 257, 263, 300, 511, 512, 1000};
  size_t sl = g.chance(0.2) ? edge[g.below(sizeof edge / sizeof edge[0])] : 1 + g.below(24);
  Bytes seed(sl);
  for (auto &c : seed) c = (uint8_t)(1 + g.below(255));
  s.b["seedstr"] = seed;
  (void)Tmax_small;
}

OpSpec base_op(const Scn &s, int kind, int slot, SimFile *fin, SimFile *fout, long nbytes) {
  OpSpec op;
  op.kind = kind;
  op.T = (int)s.geti("T", 1);
  op.cmode = (int)s.geti("cm", 0);
  op.hmode = (int)s.geti("hm", 0);
  const Bytes &k = s.getb("key");
  for (size_t i = 0; i < 16 && i < k.size(); i++) op.key[i] = k[i];
  op.keyslot = (int)s.geti("kb", 0);
  op.echo = s.geti("echo", 0) != 0;
  op.seedstr = s.getb("seedstr");
  op.fin = fin;
  op.fout = fout;
  op.inbuf = (int)s.geti("inb", -1);
  op.outbuf = (int)s.geti("outb", -1);
  op.short_io = s.geti("sio", 0) != 0;
  op.io_seed = Rng::mix((uint64_t)s.geti("ioseed", 1), slot);
  op.fsize = s.geti("fz", 0) ? 0 : (size_t)nbytes;   // the size argument only feeds the progress display; callers may pass 0
  op.sc = sc_for(s, slot, nbytes, op.T);
  return op;
}

OpResult run_slot(const Scn &s, OpSpec &op, int slot, const char *opname, HangPolicy hp) {
  g_ctx.scn = &s;
  g_ctx.slot = slot;
  g_ctx.opname = opname;
  g_ctx.hang = hp;
  OpResult r = run_op(op);
  g_ctx.recorded[slot] = r.sr.decisions;
  g_stats.absorb(r.sr);
  if (op.fin && op.fin->short_reads) g_stats.add("fault.short_read", op.fin->short_reads);
  return r;
}
