// Executable reference of the wencry file format on top of OpenSSL libcrypto. Shares no code with wencry. DESIGN.md 3 (R)
#pragma once
#include <cstdint>
#include <vector>
#include <string>
typedef std::vector<uint8_t> Bytes;

Bytes ref_hash(int hmode, const uint8_t *d, size_t n);               // 0 sha1, 1 md5, 2 sha256
Bytes ref_hmac(int hmode, const uint8_t key[16], const uint8_t *d, size_t n);
int ref_hlen(int hmode);
Bytes ref_pkcs7(const Bytes &p);
// the whole encrypted file
Bytes ref_encrypt_file(const Bytes &P, const uint8_t key[16], int cmode, int hmode, const Bytes &seedstr, int T, size_t CH);
Bytes ref_iv_chain(const Bytes &seedstr, int T);
// the same with the first IV given instead of the seed it is the SHA-1 of (for files whose seed is not known)
Bytes ref_encrypt_file_iv0(const Bytes &P, const uint8_t key[16], int cmode, int hmode, const uint8_t iv0[20], int T, size_t CH);
// inverse of the body (for oracles that need "what plaintext does this body decode to")
Bytes ref_decrypt_body(const Bytes &body, const uint8_t key[16], const uint8_t iv16[16], int cmode, int T, size_t CH);
void ref_aes_ecb_dec(const uint8_t key[16], const uint8_t in[16], uint8_t out[16]);
void ref_aes_ecb_enc(const uint8_t key[16], const uint8_t in[16], uint8_t out[16]);
Bytes ref_hmac_synth(int hmode, const uint8_t key[16], long len, uint64_t seed);  // HMAC of SimFile::synth_byte content
bool ref_selftest(std::string &err);
