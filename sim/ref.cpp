#include "ref.h"
#include "simfile.h"
#include <openssl/evp.h>
#include <openssl/hmac.h>
#include <cstring>
#include <cstdio>

static const EVP_MD *md_of(int hmode) {
  switch (hmode) { case 0: return EVP_sha1(); case 1: return EVP_md5(); case 2: return EVP_sha256(); }
  return nullptr;
}
int ref_hlen(int hmode) { return hmode == 0 ? 20 : hmode == 1 ? 16 : hmode == 2 ? 32 : 0; }

Bytes ref_hash(int hmode, const uint8_t *d, size_t n) {
  Bytes out(EVP_MAX_MD_SIZE);
  unsigned len = 0;
  EVP_Digest(d, n, out.data(), &len, md_of(hmode), NULL);
  out.resize(len);
  return out;
}
Bytes ref_hmac(int hmode, const uint8_t key[16], const uint8_t *d, size_t n) {
  Bytes out(EVP_MAX_MD_SIZE);
  unsigned len = 0;
  static const uint8_t z = 0;
  HMAC(md_of(hmode), key, 16, n ? d : &z, n, out.data(), &len);
  out.resize(len);
  return out;
}
Bytes ref_pkcs7(const Bytes &p) {
  Bytes r = p;
  size_t pad = 16 - (p.size() % 16);
  r.insert(r.end(), pad, (uint8_t)pad);
  return r;
}
Bytes ref_iv_chain(const Bytes &seedstr, int T) {
  Bytes ivs;
  Bytes cur = ref_hash(0, seedstr.data(), seedstr.size());
  for (int i = 0; i < T; i++) {
    ivs.insert(ivs.end(), cur.begin(), cur.end());
    cur = ref_hash(0, cur.data(), 20);
  }
  return ivs;
}
static const EVP_CIPHER *cipher_of(int cmode) {
  switch (cmode) {
  case 0: return EVP_aes_128_ecb();
  case 1: return EVP_aes_128_cbc();
  case 2: return EVP_aes_128_ctr();
  case 3: return EVP_aes_128_cfb128();
  case 4: return EVP_aes_128_ofb();
  }
  return nullptr;
}
static Bytes run_streams(const Bytes &in, const uint8_t key[16], const uint8_t iv16[16], int cmode, int T, size_t CH, bool enc) {
  std::vector<EVP_CIPHER_CTX *> ctx(T);
  for (int i = 0; i < T; i++) {
    ctx[i] = EVP_CIPHER_CTX_new();
    EVP_CipherInit_ex(ctx[i], cipher_of(cmode), NULL, key, iv16, enc ? 1 : 0);
    EVP_CIPHER_CTX_set_padding(ctx[i], 0);
  }
  Bytes out(in.size() + 32);
  size_t o = 0;
  size_t nch = (in.size() + CH - 1) / CH;
  for (size_t j = 0; j < nch; j++) {
    size_t off = j * CH, len = std::min(CH, in.size() - off);
    int ol = 0;
    EVP_CipherUpdate(ctx[j % T], out.data() + o, &ol, in.data() + off, (int)len);
    o += ol;
  }
  for (int i = 0; i < T; i++) EVP_CIPHER_CTX_free(ctx[i]);
  out.resize(o);
  return out;
}
Bytes ref_encrypt_file(const Bytes &P, const uint8_t key[16], int cmode, int hmode, const Bytes &seedstr, int T, size_t CH) {
  Bytes f;
  for (int i = 0; i < 4; i++) { f.push_back(0xC3); f.push_back(0xA5); }
  f.push_back((uint8_t)cmode);
  f.push_back((uint8_t)hmode);
  f.insert(f.end(), 38, 0);
  Bytes ivs = ref_iv_chain(seedstr, T);
  f.insert(f.end(), ivs.begin(), ivs.end());
  Bytes body = run_streams(ref_pkcs7(P), key, ivs.data(), cmode, T, CH, true);
  f.insert(f.end(), body.begin(), body.end());
  Bytes tag = ref_hmac(hmode, key, f.data() + 48, f.size() - 48);
  memcpy(f.data() + 10, tag.data(), tag.size());
  return f;
}
Bytes ref_encrypt_file_iv0(const Bytes &P, const uint8_t key[16], int cmode, int hmode, const uint8_t iv0[20], int T, size_t CH) {
  Bytes f;
  for (int i = 0; i < 4; i++) { f.push_back(0xC3); f.push_back(0xA5); }
  f.push_back((uint8_t)cmode);
  f.push_back((uint8_t)hmode);
  f.insert(f.end(), 38, 0);
  Bytes cur(iv0, iv0 + 20), ivs;
  for (int i = 0; i < T; i++) { ivs.insert(ivs.end(), cur.begin(), cur.end()); cur = ref_hash(0, cur.data(), 20); }
  f.insert(f.end(), ivs.begin(), ivs.end());
  Bytes body = run_streams(ref_pkcs7(P), key, ivs.data(), cmode, T, CH, true);
  f.insert(f.end(), body.begin(), body.end());
  Bytes tag = ref_hmac(hmode, key, f.data() + 48, f.size() - 48);
  memcpy(f.data() + 10, tag.data(), tag.size());
  return f;
}
Bytes ref_decrypt_body(const Bytes &body, const uint8_t key[16], const uint8_t iv16[16], int cmode, int T, size_t CH) {
  return run_streams(body, key, iv16, cmode, T, CH, false);
}
void ref_aes_ecb_dec(const uint8_t key[16], const uint8_t in[16], uint8_t out[16]) {
  EVP_CIPHER_CTX *c = EVP_CIPHER_CTX_new();
  EVP_CipherInit_ex(c, EVP_aes_128_ecb(), NULL, key, NULL, 0);
  EVP_CIPHER_CTX_set_padding(c, 0);
  int ol = 0;
  uint8_t tmp[32];
  EVP_CipherUpdate(c, tmp, &ol, in, 16);
  memcpy(out, tmp, 16);
  EVP_CIPHER_CTX_free(c);
}
void ref_aes_ecb_enc(const uint8_t key[16], const uint8_t in[16], uint8_t out[16]) {
  EVP_CIPHER_CTX *c = EVP_CIPHER_CTX_new();
  EVP_CipherInit_ex(c, EVP_aes_128_ecb(), NULL, key, NULL, 1);
  EVP_CIPHER_CTX_set_padding(c, 0);
  int ol = 0;
  uint8_t tmp[32];
  EVP_CipherUpdate(c, tmp, &ol, in, 16);
  memcpy(out, tmp, 16);
  EVP_CIPHER_CTX_free(c);
}

Bytes ref_hmac_synth(int hmode, const uint8_t key[16], long len, uint64_t seed) {
  HMAC_CTX *c = HMAC_CTX_new();
  HMAC_Init_ex(c, key, 16, md_of(hmode), NULL);
  std::vector<uint8_t> buf(1 << 20);
  for (long off = 0; off < len;) {
    size_t n = (size_t)std::min<long>((long)buf.size(), len - off);
    for (size_t q = 0; q < n; q++) buf[q] = SimFile::synth_byte(seed, (uint64_t)(off + q));
    HMAC_Update(c, buf.data(), n);
    off += n;
  }
  Bytes out(EVP_MAX_MD_SIZE);
  unsigned l = 0;
  HMAC_Final(c, out.data(), &l);
  HMAC_CTX_free(c);
  out.resize(l);
  return out;
}

static Bytes unhex(const char *h) {
  Bytes r;
  for (size_t i = 0; h[i] && h[i + 1]; i += 2) { unsigned v; sscanf(h + i, "%2x", &v); r.push_back((uint8_t)v); }
  return r;
}
bool ref_selftest(std::string &err) {
  // FIPS-197 C.1
  {
    Bytes k = unhex("000102030405060708090a0b0c0d0e0f"), p = unhex("00112233445566778899aabbccddeeff"), c = unhex("69c4e0d86a7b0430d8cdb78070b4c55a");
    uint8_t o[16];
    ref_aes_ecb_enc(k.data(), p.data(), o);
    if (memcmp(o, c.data(), 16)) { err = "FIPS-197 enc"; return false; }
    ref_aes_ecb_dec(k.data(), c.data(), o);
    if (memcmp(o, p.data(), 16)) { err = "FIPS-197 dec"; return false; }
  }
  // SP 800-38A F.x (AES-128), four blocks each
  {
    Bytes k = unhex("2b7e151628aed2a6abf7158809cf4f3c");
    Bytes p = unhex("6bc1bee22e409f96e93d7e117393172aae2d8a571e03ac9c9eb76fac45af8e5130c81c46a35ce411e5fbc1191a0a52eff69f2445df4f9b17ad2b417be66c3710");
    Bytes iv = unhex("000102030405060708090a0b0c0d0e0f"), ctriv = unhex("f0f1f2f3f4f5f6f7f8f9fafbfcfdfeff");
    struct { int m; const uint8_t *iv; const char *c; } v[] = {
        {0, iv.data(), "3ad77bb40d7a3660a89ecaf32466ef97f5d3d58503b9699de785895a96fdbaaf43b1cd7f598ece23881b00e3ed0306887b0c785e27e8ad3f8223207104725dd4"},
        {1, iv.data(), "7649abac8119b246cee98e9b12e9197d5086cb9b507219ee95db113a917678b273bed6b8e3c1743b7116e69e222295163ff1caa1681fac09120eca307586e1a7"},
        {2, ctriv.data(), "874d6191b620e3261bef6864990db6ce9806f66b7970fdff8617187bb9fffdff5ae4df3edbd5d35e5b4f09020db03eab1e031dda2fbe03d1792170a0f3009cee"},
        {3, iv.data(), "3b3fd92eb72dad20333449f8e83cfb4ac8a64537a0b3a93fcde3cdad9f1ce58b26751f67a3cbb140b1808cf187a4f4dfc04b05357c5d1c0eeac4c66f9ff7f2e6"},
        {4, iv.data(), "3b3fd92eb72dad20333449f8e83cfb4a7789508d16918f03f53c52dac54ed8259740051e9c5fecf64344f7a82260edcc304c6528f659c77866a510d9c1d6ae5e"}};
    for (auto &t : v) {
      Bytes c = run_streams(p, k.data(), t.iv, t.m, 1, 1 << 20, true);
      if (c != unhex(t.c)) { err = "SP800-38A mode " + std::to_string(t.m); return false; }
      Bytes d = run_streams(c, k.data(), t.iv, t.m, 1, 16, false);   // chunked continuation must equal one-shot
      if (d != p) { err = "SP800-38A inverse mode " + std::to_string(t.m); return false; }
    }
  }
  // RFC 2202 / 4231 test case 2 ("Jefe") needs a 4-byte key; ref_hmac is fixed at 16-byte keys, so use case with 16-byte key: RFC 2202 md5 case 1
  {
    Bytes k(16, 0x0b);
    const char *msg = "Hi There";
    Bytes t = ref_hmac(1, k.data(), (const uint8_t *)msg, 8);
    if (t != unhex("9294727a3638bb1c13f48ef8158bfc9d")) { err = "RFC2202 hmac-md5 case 1"; return false; }
    // sha1 / sha256 with the same 16-byte key, cross-checked by the explicit RFC 2104 construction over ref_hash
    for (int hm = 0; hm < 3; hm++) {
      Bytes ip(64, 0x36), op(64, 0x5c);
      for (int i = 0; i < 16; i++) { ip[i] ^= k[i]; op[i] ^= k[i]; }
      Bytes in = ip; in.insert(in.end(), msg, msg + 8);
      Bytes ih = ref_hash(hm, in.data(), in.size());
      Bytes on = op; on.insert(on.end(), ih.begin(), ih.end());
      if (ref_hash(hm, on.data(), on.size()) != ref_hmac(hm, k.data(), (const uint8_t *)msg, 8)) { err = "hmac construction"; return false; }
    }
  }
  // FIPS 180 "abc"
  {
    const uint8_t *abc = (const uint8_t *)"abc";
    if (ref_hash(0, abc, 3) != unhex("a9993e364706816aba3e25717850c26c9cd0d89d")) { err = "sha1 abc"; return false; }
    if (ref_hash(1, abc, 3) != unhex("900150983cd24fb0d6963f7d28e17f72")) { err = "md5 abc"; return false; }
    if (ref_hash(2, abc, 3) != unhex("ba7816bf8f01cfea414140de5dae2223b00361a396177a9cb410ff61f20015ad")) { err = "sha256 abc"; return false; }
  }
  return true;
}
