// Single source of randomness: splitmix64 for seed derivation, xoshiro256** per run.
#pragma once
#include <cstdint>
#include <cstddef>
struct Rng {
  uint64_t s[4];
  static uint64_t splitmix(uint64_t &x) {
    uint64_t z = (x += 0x9E3779B97F4A7C15ull);
    z = (z ^ (z >> 30)) * 0xBF58476D1CE4E5B9ull;
    z = (z ^ (z >> 27)) * 0x94D049BB133111EBull;
    return z ^ (z >> 31);
  }
  static uint64_t mix(uint64_t a, uint64_t b, uint64_t c = 0) {
    uint64_t x = a * 0x9E3779B97F4A7C15ull + 0x1234567;
    uint64_t r = splitmix(x);
    x ^= b * 0xD1B54A32D192ED03ull; r ^= splitmix(x);
    x ^= c * 0x8CB92BA72F3D8DD7ull; r ^= splitmix(x);
    return r;
  }
  explicit Rng(uint64_t seed = 1) { reseed(seed); }
  void reseed(uint64_t seed) { uint64_t x = seed; for (int i = 0; i < 4; i++) s[i] = splitmix(x); }
  static inline uint64_t rotl(uint64_t x, int k) { return (x << k) | (x >> (64 - k)); }
  uint64_t next() {
    uint64_t r = rotl(s[1] * 5, 7) * 9, t = s[1] << 17;
    s[2] ^= s[0]; s[3] ^= s[1]; s[1] ^= s[2]; s[0] ^= s[3]; s[2] ^= t; s[3] = rotl(s[3], 45);
    return r;
  }
  // uniform in [0,n)
  uint64_t below(uint64_t n) { return n <= 1 ? 0 : next() % n; }
  long range(long lo, long hi) { return lo + (long)below((uint64_t)(hi - lo + 1)); } // inclusive
  bool chance(double p) { return (next() >> 11) * (1.0 / 9007199254740992.0) < p; }
  void bytes(unsigned char *p, size_t n) { for (size_t i = 0; i < n; i++) p[i] = (unsigned char)(next() >> 24); }
};
inline uint64_t fnv1a(uint64_t h, const void *p, size_t n) {
  const unsigned char *c = (const unsigned char *)p;
  for (size_t i = 0; i < n; i++) { h ^= c[i]; h *= 0x100000001b3ull; }
  return h;
}
inline uint64_t fnv1a_u64(uint64_t h, uint64_t v) { return fnv1a(h, &v, 8); }
static const uint64_t FNV_INIT = 0xcbf29ce484222325ull;
