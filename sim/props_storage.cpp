// Properties decided by storage / key / crash faults on stored files: C05, C06, C08, C11, C12, C13.
#include "harness.h"
#include "fheader.h"
#include <cstring>
#include <algorithm>

static size_t CHB() { return build_chunk_bytes(); }

static Verdict viol(const std::string &cls, const std::string &detail) {
  Verdict v; v.violation = true; v.cls = cls; v.detail = detail; return v;
}
static Verdict skipv(const std::string &why) {
  Verdict v; v.skipped = true; v.skip_reason = why; return v;
}

// ---------------------------------------------------------------- baseline file

struct Baseline {
  bool ok = false;
  std::string why;
  Bytes P, F, P2, G;   // G: second file under the same key/config (for splices), built lazily
  OpSpec e;
  int T = 1;
  bool input_intact = true;
};

static void fill_file_cfg(Rng &g, Scn &s, int maxT, int maxChunks) {
  fill_base(g, s, maxT);
  // mostly few workers (cheap), but every thread count occurs: header size, IV table and several 8-bit quantities
  // depend on it (a verify/decrypt disagreement that only exists for T >= 13 was missed with T <= 4: seeded change C12-3)
  int T = g.chance(0.85) ? (int)g.range(1, maxT) : (int)g.range(5, 16);
  s.i["T"] = T;
  long ch = (long)CHB();
  long chunks = (long)g.below(maxChunks + 1);
  long len = chunks * ch + (g.chance(0.3) ? 0 : (long)g.below(ch));
  if (g.chance(0.15)) len = std::max<long>(0, chunks * ch - 1 - (long)g.below(16));   // body exact chunk multiple
  s.i["len"] = len;
  s.i["warm"] = g.chance(0.4) ? 1 + (long)g.below(2) : 0;
  // the decrypt (and verify) of the stored / faulted file runs under a schedule of its own
  pick_sched(g, s, 2, T, true);
  pick_sched(g, s, 1, 1, false);
}

static long file_len(const Scn &s) {
  long n = s.geti("len");
  return 48 + 20 * s.geti("T") + 16 * (n / 16 + 1);
}

static Baseline make_baseline(const Scn &s, bool need_second) {
  Baseline B;
  B.T = (int)s.geti("T");
  long len = s.geti("len");
  B.P = make_plain(len, (uint64_t)s.geti("pseed"), (int)s.geti("ptype"), CHB());
  SimFile fin, fout;
  fin.data = B.P;
  B.e = base_op(s, OP_ENC, 0, &fin, &fout, len);
  B.e.sc = sc_canonical(len, B.T);
  B.e.short_io = false; B.e.inbuf = -1; B.e.outbuf = -1;
  OpSpec e = B.e;
  OpResult r = run_slot(s, e, 0, "enc(baseline)", HANG_SKIP);
  if (!r.ret) { B.why = "baseline-enc-false"; return B; }
  B.input_intact = fin.wlog.empty() && fin.data == B.P;
  B.F = fout.data;
  if ((long)B.F.size() < 48 + 20 * B.T + 16) { B.why = "baseline-too-short"; return B; }
  if (need_second) {
    B.P2 = make_plain(len, (uint64_t)s.geti("pseed") + 1, 0, CHB());
    SimFile fin2, fout2;
    fin2.data = B.P2;
    OpSpec e2 = B.e;
    e2.fin = &fin2; e2.fout = &fout2;
    OpResult r2 = run_slot(s, e2, 3, "enc(baseline2)", HANG_SKIP);
    if (!r2.ret) { B.why = "baseline2-enc-false"; return B; }
    B.G = fout2.data;
  }
  B.ok = true;
  return B;
}

// ---------------------------------------------------------------- storage faults

static bool needs_second(const Scn &s) {
  for (auto &r : s.faults) if (r.kind == "splice") return true;
  return false;
}

static Bytes apply_faults(const Scn &s, const Baseline &B, uint8_t key[16]) {
  Bytes F = B.F;
  size_t hs = 48 + 20 * (size_t)B.T;
  size_t CH = CHB();
  for (auto &r : s.faults) {
    auto A = [&](size_t k) { return k < r.a.size() ? r.a[k] : 0; };
    const std::string &k = r.kind;
    g_stats.add("fault." + k, 1);
    if (k == "flip") { if ((size_t)A(0) < F.size()) F[A(0)] ^= (uint8_t)(1u << (A(1) & 7)); }
    else if (k == "set" || k == "modebyte") { if ((size_t)A(0) < F.size()) F[A(0)] = (uint8_t)A(1); }
    else if (k == "zero") { for (long o = A(0); o < A(0) + A(1) && (size_t)o < F.size(); o++) F[o] = 0; }
    else if (k == "ins") { size_t o = std::min<size_t>(A(0), F.size()); F.insert(F.begin() + o, r.data.begin(), r.data.end()); }
    else if (k == "del") { size_t o = std::min<size_t>(A(0), F.size()); size_t n = std::min<size_t>(A(1), F.size() - o); F.erase(F.begin() + o, F.begin() + o + n); }
    else if (k == "trunc") { if ((size_t)A(0) < F.size()) F.resize(A(0)); }
    else if (k == "ext0") { F.insert(F.end(), (size_t)A(0), 0); }
    else if (k == "extg") { F.insert(F.end(), r.data.begin(), r.data.end()); }
    else if (k == "mdpad") {
      // the classic extension of a Merkle-Damgard hash: append the padding the hash itself would append to the authenticated
      // region [48, EOF), counted with A(0) bytes in front of it (0, or 64 for HMAC's key block); A(1): 0 = big-endian bit
      // count (SHA), 1 = little-endian (MD5).  A closed hash makes this just another modification.
      uint64_t n = (uint64_t)A(0) + (F.size() > 48 ? F.size() - 48 : 0);
      F.push_back(0x80);
      while ((A(0) + (F.size() - 48)) % 64 != 56) F.push_back(0);
      uint64_t bits = n * 8;
      for (int q = 0; q < 8; q++) F.push_back((uint8_t)(A(1) ? bits >> (8 * q) : bits >> (8 * (7 - q))));
    }
    else if (k == "exttail") { size_t n = std::min<size_t>(A(0), F.size()); Bytes t(F.end() - n, F.end()); F.insert(F.end(), t.begin(), t.end()); }
    else if (k == "swapblk" || k == "dupblk") {
      size_t nb = F.size() > hs ? (F.size() - hs) / 16 : 0;
      if (nb >= 2) {
        size_t i = A(0) % nb, j = A(1) % nb;
        if (k == "swapblk") for (int q = 0; q < 16; q++) std::swap(F[hs + i * 16 + q], F[hs + j * 16 + q]);
        else memcpy(&F[hs + j * 16], &F[hs + i * 16], 16);
      }
    } else if (k == "swapchunk" || k == "dupchunk") {
      size_t nc = F.size() > hs ? (F.size() - hs) / CH : 0;
      if (nc >= 2) {
        size_t i = A(0) % nc, j = A(1) % nc;
        if (k == "swapchunk") for (size_t q = 0; q < CH; q++) std::swap(F[hs + i * CH + q], F[hs + j * CH + q]);
        else memcpy(&F[hs + j * CH], &F[hs + i * CH], CH);
      }
    } else if (k == "splice") {
      size_t cut = std::min<size_t>(A(0), std::min(F.size(), B.G.size()));
      Bytes n(F.begin(), F.begin() + cut);
      n.insert(n.end(), B.G.begin() + cut, B.G.end());
      F = n;
    } else if (k == "replace") { F = r.data; }
    else if (k == "garbage") { // (len, seed, with_magic, cm, hm)
      Rng g((uint64_t)A(1));
      F.assign((size_t)A(0), 0);
      g.bytes(F.data(), F.size());
      if (A(2)) {
        for (size_t q = 0; q < 8 && q < F.size(); q++) F[q] = (q & 1) ? 0xA5 : 0xC3;
        if (F.size() > 8 && A(3) >= 0) F[8] = (uint8_t)A(3);
        if (F.size() > 9 && A(4) >= 0) F[9] = (uint8_t)A(4);
      }
    } else if (k == "keyflip") { key[(A(0) / 8) & 15] ^= (uint8_t)(1u << (A(0) & 7)); g_stats.add("fault.key_bitflip", 1); }
    else if (k == "keyset") { for (size_t q = 0; q < 16 && q < r.data.size(); q++) key[q] = r.data[q]; g_stats.add("fault.key_replaced", 1); }
    else if (k == "keyzero") { memset(key, 0, 16); g_stats.add("fault.key_replaced", 1); }
  }
  return F;
}

static Rec mkrec(const char *kind, std::initializer_list<long> a, const Bytes &d = Bytes()) {
  Rec r; r.kind = kind; r.a.assign(a.begin(), a.end()); r.data = d; return r;
}

static Rec random_fault(Rng &g, long L, int T) {
  long hs = 48 + 20 * T;
  auto off = [&]() { return (long)g.below((uint64_t)std::max<long>(L, 1)); };
  switch (g.below(16)) {
  case 0: return mkrec("flip", {off(), (long)g.below(8)});
  case 1: return mkrec("set", {off(), (long)g.below(256)});
  case 2: return mkrec("zero", {off(), 1 + (long)g.below(64)});
  case 3: { Bytes d(1 + g.below(33)); g.bytes(d.data(), d.size()); return mkrec("ins", {off()}, d); }
  case 4: return mkrec("del", {off(), 1 + (long)g.below(33)});
  case 5: return mkrec("trunc", {off()});
  case 6: return mkrec("ext0", {1 + (long)g.below(64)});
  case 7: { Bytes d(1 + g.below(64)); g.bytes(d.data(), d.size()); return mkrec("extg", {}, d); }
  case 8: return mkrec("exttail", {16 * (1 + (long)g.below(4))});
  case 9: return mkrec("swapblk", {(long)g.below(1000), (long)g.below(1000)});
  case 10: return mkrec("dupblk", {(long)g.below(1000), (long)g.below(1000)});
  case 11: return mkrec("swapchunk", {(long)g.below(1000), (long)g.below(1000)});
  case 12: return mkrec("dupchunk", {(long)g.below(1000), (long)g.below(1000)});
  case 13: return mkrec("splice", {hs + (long)g.below((uint64_t)std::max<long>(L - hs, 1))});
  case 14: if (g.chance(0.3)) return mkrec("mdpad", {g.chance(0.5) ? 64 : 0, (long)g.below(2)});
           return mkrec("set", {8 + (long)g.below(2), (long)g.below(8)});        // mode bytes, mostly valid numbers
  default: return mkrec("flip", {10 + (long)g.below(38), (long)g.below(8)});     // tag / zero-fill area
  }
}

// With "warm" set, the authentic file is verified and decrypted first, in the same process and under the same key:
// acceptance must not depend on what was accepted before (a verification cache keyed on part of the file would show).
static void warm_up(const Scn &s, const Baseline &B) {
  if (!s.geti("warm")) return;
  g_stats.add("probe.authentic_file_accepted_first(warm-up)", 1);
  SimFile fin, fout;
  fin.data = B.F;
  OpSpec d = B.e;
  d.kind = s.geti("warm") == 1 ? OP_VER : OP_DEC;
  d.fin = &fin; d.fout = &fout;
  d.fsize = B.F.size();
  d.sc = sc_canonical((long)B.F.size(), B.T);
  run_slot(s, d, 5, "warm-up", HANG_SKIP);
}

// informative difference between the stored file and the faulted one
struct Diff {
  bool any = false;          // F' != F
  bool informative = false;  // differs outside [10+hlen, 48) or in length
  bool only_byte8 = false;   // informative offsets are exactly {8}
};
static Diff diff_files(const Bytes &F, const Bytes &F2, int hm) {
  Diff d;
  size_t lo = 10 + (size_t)ref_hlen(hm);
  if (F.size() != F2.size()) { d.any = d.informative = true; return d; }
  size_t ninf = 0;
  bool b8 = false;
  for (size_t k = 0; k < F.size(); k++)
    if (F[k] != F2[k]) {
      d.any = true;
      if (k >= lo && k < 48) continue;
      ninf++;
      if (k == 8) b8 = true;
    }
  d.informative = ninf > 0;
  d.only_byte8 = (ninf == 1 && b8);
  return d;
}

struct VD { bool vret = false, dret = false; Bytes dout; bool vwrote = false; bool in_intact_v = true, in_intact_d = true; long dthreads = 0; bool cap_hit = false; uint64_t trace = FNV_INIT; };

static VD verify_and_decrypt(const Scn &s, const Bytes &F2, const uint8_t key[16], int T, HangPolicy hp) {
  VD r;
  {
    SimFile fin, fout;
    fin.data = F2;
    OpSpec v = base_op(s, OP_VER, 1, &fin, &fout, (long)F2.size());
    memcpy(v.key, key, 16);
    v.T = T;
    OpResult o = run_slot(s, v, 1, "ver", hp);
    r.vret = o.ret;
    r.vwrote = !fout.wlog.empty() || !fout.data.empty();
    r.in_intact_v = fin.wlog.empty() && fin.data == F2;
    r.trace = fnv1a_u64(r.trace, o.sr.trace_hash ^ (uint64_t)o.ret);
  }
  {
    SimFile fin, fout;
    fin.data = F2;
    fout.size_cap = (long)F2.size() + 64;   // a correct decryption never writes more than the body holds
    OpSpec d = base_op(s, OP_DEC, 2, &fin, &fout, (long)F2.size());
    memcpy(d.key, key, 16);
    d.T = T;
    OpResult o = run_slot(s, d, 2, "dec", hp);
    r.dret = o.ret;
    r.dout = fout.data;
    r.in_intact_d = fin.wlog.empty() && fin.data == F2;
    r.dthreads = o.sr.threads_created;
    r.cap_hit = fout.cap_hit;
    r.trace = fnv1a(fnv1a_u64(r.trace, o.sr.trace_hash ^ (uint64_t)o.ret), fout.data.data(), fout.data.size());
  }
  return r;
}

// Runs verify+decrypt in a forked child.  Used for inputs inside the region of known finding K1 (only the cipher-mode
// byte altered, tag still valid): there the pinned code decrypts with the wrong mode, takes the pad length from garbage
// and may read far outside its buffers, so the outcome (and whether the process survives) depends on memory layout.
#include <unistd.h>
#include <sys/wait.h>
struct VDFork { bool completed = false; VD r; };
static VDFork verify_and_decrypt_forked(const Scn &s, const Bytes &F2, const uint8_t key[16], int T) {
  VDFork out;
  int pfd[2];
  if (pipe(pfd) != 0) return out;
  pid_t pid = fork();
  if (pid == 0) {
    close(pfd[0]);
    arm_watchdog(20);
    g_ctx.hang_cb = [](int, const char *) { _exit(14); };
    VD r = verify_and_decrypt(s, F2, key, T, HANG_VIOLATION);
    uint8_t hdr[3] = {(uint8_t)r.vret, (uint8_t)r.dret, (uint8_t)r.cap_hit};
    uint32_t n = (uint32_t)r.dout.size();
    (void)!write(pfd[1], hdr, 3);
    (void)!write(pfd[1], &n, 4);
    size_t off = 0;
    while (off < r.dout.size()) { ssize_t w = write(pfd[1], r.dout.data() + off, r.dout.size() - off); if (w <= 0) break; off += w; }
    _exit(0);
  }
  close(pfd[1]);
  ChildWait child_wait;
  std::string buf;
  char tmp[65536];
  ssize_t n;
  while ((n = read(pfd[0], tmp, sizeof tmp)) > 0) buf.append(tmp, n);
  close(pfd[0]);
  int st = 0;
  waitpid(pid, &st, 0);
  if (WIFEXITED(st) && WEXITSTATUS(st) == 0 && buf.size() >= 7) {
    uint32_t len;
    memcpy(&len, &buf[3], 4);
    if (buf.size() == 7 + (size_t)len) {
      out.completed = true;
      out.r.vret = buf[0]; out.r.dret = buf[1]; out.r.cap_hit = buf[2];
      out.r.dout.assign(buf.begin() + 7, buf.end());
    }
  }
  return out;
}

// ---------------------------------------------------------------- C05

static const long C05_FILES_QUICK = 60, C05_SLOTS_QUICK = 2200, C05_FILES_THOROUGH = 2000, C05_SLOTS_THOROUGH = 20000;

static long plan_C05(const std::string &tier) {
  return tier == "quick" ? C05_FILES_QUICK * C05_SLOTS_QUICK : C05_FILES_THOROUGH * C05_SLOTS_THOROUGH;
}

static void gen_C05_like(const std::string &tier, uint64_t seed, long idx, Scn &s, const char *prop) {
  s.prop = prop; s.tier = tier; s.seed = seed; s.index = idx;
  long slots = tier == "quick" ? C05_SLOTS_QUICK : C05_SLOTS_THOROUGH;
  // interleave files so that a wall-clock cut still covers every enumerated class of some files
  long nfiles = tier == "quick" ? C05_FILES_QUICK : C05_FILES_THOROUGH;
  long file = idx % nfiles, j = idx / nfiles;
  if (tier != "quick") {
    // thorough: blocks of 64 files, each block taken through ALL its slots before the next one starts, so that a run that
    // the wall budget cuts short has still put every class of alteration to some files (and not only the first classes to all)
    const long B = 64;
    long blk = idx / (B * slots), r = idx % (B * slots);
    file = blk * B + r % B;
    j = r / B;
  }
  Rng gf(Rng::mix(seed, 0xC05, (uint64_t)file));
  fill_file_cfg(gf, s, 4, 6);
  s.i["file"] = file;
  long L = file_len(s);
  int T = (int)s.geti("T");
  long hs = 48 + 20 * T;
  Rng g(Rng::mix(seed, 0xC05F, (uint64_t)idx));
  if (j < 8 * hs) { s.faults.push_back(mkrec("flip", {j / 8, j % 8})); return; }
  j -= 8 * hs;
  if (j < L - hs) { s.faults.push_back(mkrec("flip", {hs + j, (j * 5 + 3) % 8})); return; }
  j -= L - hs;
  if (j < L) { s.faults.push_back(mkrec("trunc", {j})); return; }
  j -= L;
  if (j < 4) { s.faults.push_back(mkrec("mdpad", {(j & 1) ? 64 : 0, j >> 1})); return; }
  j -= 4;
  if (tier != "quick") {
    if (j < 8 * (L - hs)) { s.faults.push_back(mkrec("flip", {hs + j / 8, j % 8})); return; }
    j -= 8 * (L - hs);
    long nb = (L - hs) / 16;
    if (j < nb * nb && j / nb != j % nb) { s.faults.push_back(mkrec(g.chance(0.5) ? "swapblk" : "dupblk", {j / nb, j % nb})); return; }
  }
  int nf = g.chance(0.7) ? 1 : 1 + (int)g.below(3);
  for (int k = 0; k < nf; k++) s.faults.push_back(random_fault(g, L, T));
}
static void gen_C05(const std::string &tier, uint64_t seed, long idx, Scn &s) { gen_C05_like(tier, seed, idx, s, "C05"); }

static uint64_t case_hash_faults(const Scn &s) {
  uint64_t h = FNV_INIT;
  for (const char *k : {"T", "cm", "hm", "len", "pseed"}) h = fnv1a_u64(h, (uint64_t)s.geti(k, -7));
  for (auto &r : s.faults) {
    h = fnv1a(h, r.kind.data(), r.kind.size());
    for (long a : r.a) h = fnv1a_u64(h, (uint64_t)a);
    h = fnv1a(h, r.data.data(), r.data.size());
  }
  return h;
}

// C05 compares what an altered file decrypts to with the original plaintext; that only says something about the
// alteration if the unaltered file decrypts to the original plaintext in the first place (C01's statement).
static bool baseline_roundtrips(const Scn &s, const Baseline &B) {
  SimFile fin, fout;
  fin.data = B.F;
  OpSpec d = B.e;
  d.kind = OP_DEC;
  d.fin = &fin; d.fout = &fout;
  d.fsize = B.F.size();
  d.sc = sc_canonical((long)B.F.size(), B.T);
  OpResult r = run_slot(s, d, 4, "dec(baseline)", HANG_SKIP);
  return r.ret && fout.data == B.P;
}

static Verdict run_C05(const Scn &s) {
  Baseline B = make_baseline(s, needs_second(s));
  if (!B.ok) return skipv(B.why);
  if (!baseline_roundtrips(s, B)) return skipv("baseline-roundtrip-fails(C01 matter)");
  uint8_t key[16];
  memcpy(key, B.e.key, 16);
  Bytes F2 = apply_faults(s, B, key);
  Diff d = diff_files(B.F, F2, B.e.hmode);
  if (!d.any) return skipv("fault-changed-nothing");
  // A splice that yields the complete other file G is a substitution by another authentic file, not an alteration
  // (also when, on top of that, only bytes that carry no information were changed): skipped.  If the fault list
  // reproduces G except for the cipher-mode byte, it is the known finding K1 applied to G: G becomes the baseline.
  if (!B.G.empty()) {
    Diff dg = diff_files(B.G, F2, B.e.hmode);
    if (!dg.informative) return skipv("fault-produced-another-authentic-file");
    if (dg.only_byte8) { d = dg; B.F = B.G; B.P = B.P2; }
  }
  warm_up(s, B);
  Verdict v;
  v.case_hash = case_hash_faults(s);
  v.nontrivial = true;
  VD r;
  if (d.only_byte8 && F2[8] <= 4) {
    // region of known finding K1: contain the run, classify whatever happens against the known-findings file
    g_stats.add("probe.byte8_only_faults_run_in_fork", 1);
    VDFork f = verify_and_decrypt_forked(s, F2, key, B.T);
    if (!f.completed) {
      Verdict x = viol("tampered-file-accepted", "only the cipher-mode byte was altered (to another valid mode); verify/decrypt then did not terminate normally (garbage pad length drives the export)");
      x.sig = "cipher-mode-byte-8-not-authenticated";
      x.case_hash = v.case_hash;
      x.nontrivial = true;
      return x;
    }
    r = f.r;
  } else
    r = verify_and_decrypt(s, F2, key, B.T, HANG_VIOLATION);
  v.trace_hash = r.trace;
  bool differs = r.dret && r.dout != B.P;
  Verdict x;
  if (d.informative && (r.vret || r.dret)) {
    x = viol(differs ? "tampered-file-decrypts-to-different-plaintext" : "tampered-file-accepted",
             std::string("file altered in information-carrying bytes, yet verify=") + (r.vret ? "true" : "false") + " decrypt=" + (r.dret ? "true" : "false") +
                 (differs ? " with output != original plaintext (" + std::to_string(r.dout.size()) + " bytes vs " + std::to_string(B.P.size()) + ")" : ""));
    if (d.only_byte8) x.sig = "cipher-mode-byte-8-not-authenticated";
  } else if (!d.informative && differs) {
    x = viol("no-information-bytes-change-plaintext", "only bytes in [10+hlen,48) were altered but decryption delivered different plaintext");
  } else return v;
  x.trace_hash = v.trace_hash;
  x.case_hash = v.case_hash;
  return x;
}

// ---------------------------------------------------------------- C06

static long plan_C06(const std::string &tier) { return (tier == "quick" ? 300 : 20000) * 194; }

static void gen_C06_like(const std::string &tier, uint64_t seed, long idx, Scn &s, const char *prop) {
  s.prop = prop; s.tier = tier; s.seed = seed; s.index = idx;
  long nfiles = tier == "quick" ? 300 : 20000;
  long file = idx % nfiles, j = idx / nfiles;
  Rng gf(Rng::mix(seed, 0xC06, (uint64_t)file));
  fill_file_cfg(gf, s, 4, 4);
  s.i["file"] = file;
  Rng g(Rng::mix(seed, 0xC06F, (uint64_t)idx));
  if (j-- == 0) {
    // the same question on the command-line path (key given as a string), for every 4th file (quick) / 16th file (thorough):
    // 128 neighbours x {-v, -d}, each in a process of its own
    if (std::string(prop) == "C06" && file % (tier == "quick" ? 4 : 16) == 0) s.i["cli"] = 1;
    else s.faults.push_back(mkrec("keyzero", {}));
    return;
  }
  if (j < 128) s.faults.push_back(mkrec("keyflip", {j}));
  else if (j < 192) { Bytes k(16); g.bytes(k.data(), 16); s.faults.push_back(mkrec("keyset", {}, k)); }
  else s.faults.push_back(mkrec("keyzero", {}));
}
static void gen_C06(const std::string &tier, uint64_t seed, long idx, Scn &s) { gen_C06_like(tier, seed, idx, s, "C06"); }

static Verdict run_C06(const Scn &s) {
  if (s.geti("cli", 0)) return run_C06_cli(s);
  Baseline B = make_baseline(s, false);
  if (!B.ok) return skipv(B.why);
  uint8_t key[16];
  memcpy(key, B.e.key, 16);
  Bytes F2 = apply_faults(s, B, key);
  if (memcmp(key, B.e.key, 16) == 0) return skipv("key-unchanged");
  warm_up(s, B);   // the right key accepted first (same process, and - as it happens - the same key buffer address)
  VD r = verify_and_decrypt(s, F2, key, B.T, HANG_VIOLATION);
  Verdict v;
  v.case_hash = case_hash_faults(s);
  v.nontrivial = true;
  v.trace_hash = r.trace;
  if (r.dthreads > 0) g_stats.add("probe.pipeline_started_with_wrong_key", 1);
  Verdict x;
  if (r.vret) x = viol("wrong-key-verifies", "verification with a key different from the encryption key returned true");
  else if (r.dret) x = viol("wrong-key-decrypts", "decryption with a key different from the encryption key returned true");
  else if (!r.dout.empty()) x = viol("wrong-key-output-written", "decryption with a wrong key reported failure but wrote " + std::to_string(r.dout.size()) + " bytes to the output");
  else return v;
  x.trace_hash = v.trace_hash;
  x.case_hash = v.case_hash;
  return x;
}

// ---------------------------------------------------------------- C11

static long plan_C11(const std::string &tier) { return tier == "quick" ? 30000 : 2000000; }

static void gen_C11_like(const std::string &tier, uint64_t seed, long idx, Scn &s, const char *prop) {
  s.prop = prop; s.tier = tier; s.seed = seed; s.index = idx;
  Rng g(Rng::mix(seed, 0xC11, (uint64_t)idx));
  long nfiles = tier == "quick" ? 40 : 2000;
  long file = idx % nfiles;
  Rng gf(Rng::mix(seed, 0xC11F, (uint64_t)file));
  fill_file_cfg(gf, s, 4, 4);
  s.i["file"] = file;
  long L = file_len(s);
  int T = (int)s.geti("T");
  long j = idx / nfiles;
  // classes, cycled by j
  if (j == 0) { s.faults.push_back(mkrec("trunc", {0})); return; }                                     // empty
  if (j <= 15) { s.faults.push_back(mkrec("tmis", {1 + (T - 1 + j) % 16})); return; }                   // the authentic file, read with each of the 15 other thread counts
  j -= 15;
  if (j <= 100) { s.faults.push_back(mkrec("garbage", {j, (long)(g.next() >> 2), 0, -1, -1})); return; } // every length 1..100 of random bytes
  j -= 101;
  if (j < 100) { s.faults.push_back(mkrec("garbage", {8 + j, (long)(g.next() >> 2), 1, -1, -1})); return; } // magic + random
  j -= 100;
  if (j < 256) { s.faults.push_back(mkrec("modebyte", {8, j})); if (g.chance(0.3)) s.faults.push_back(mkrec("flip", {10 + (long)g.below(16), (long)g.below(8)})); return; }
  j -= 256;
  if (j < 256) { s.faults.push_back(mkrec("modebyte", {9, j})); if (g.chance(0.3)) s.faults.push_back(mkrec("flip", {10 + (long)g.below(16), (long)g.below(8)})); return; }
  j -= 256;
  switch (j % 4) {
  case 0: s.faults.push_back(mkrec("trunc", {(long)g.below((uint64_t)L)})); break;
  case 1: { // structured garbage: right magic, valid mode bytes, random rest, up to 4 chunks
    long n = 48 + 20 * T + (long)g.below(4 * CHB() + 17);
    s.faults.push_back(mkrec("garbage", {n, (long)(g.next() >> 2), 1, (long)g.below(5), (long)g.below(3)}));
    break;
  }
  case 2: { int nf = 2 + (int)g.below(5); for (int k = 0; k < nf; k++) s.faults.push_back(random_fault(g, L, T)); break; }
  default: { // mode bytes out of range together with other damage
    s.faults.push_back(mkrec("modebyte", {8 + (long)g.below(2), 3 + (long)g.below(253)}));
    if (g.chance(0.5)) s.faults.push_back(random_fault(g, L, T));
  }
  }
}
static void gen_C11(const std::string &tier, uint64_t seed, long idx, Scn &s) { gen_C11_like(tier, seed, idx, s, "C11"); }

static bool tag_valid_ref(const Bytes &F, const uint8_t key[16]) {
  if (F.size() < 74) return false;
  for (int q = 0; q < 8; q++) if (F[q] != ((q & 1) ? 0xA5 : 0xC3)) return false;
  int hm = F[9];
  if (hm > 2) return false;
  Bytes t = ref_hmac(hm, key, F.data() + 48, F.size() - 48);
  return memcmp(t.data(), &F[10], t.size()) == 0;
}

static Verdict run_C11(const Scn &s) {
  Baseline B = make_baseline(s, needs_second(s));
  if (!B.ok) return skipv(B.why);
  uint8_t key[16];
  memcpy(key, B.e.key, 16);
  Bytes F2 = apply_faults(s, B, key);
  bool tagok = tag_valid_ref(F2, key);
  Diff d = diff_files(B.F, F2, B.e.hmode);
  // A file whose tag verifies although it did not come out of this encryption (a splice of two files under one key that happens
  // to keep a valid tag, the mode byte changed: K1) is "authentic" as far as C11 can tell: acceptance is C05's question, but it
  // is still a byte string, and must be handled without crash, hang, out-of-bounds access or surplus output.
  if (tagok && d.informative) g_stats.add("probe.valid_tag_not_from_this_encryption(termination_and_bounds_only)", 1);
  warm_up(s, B);
  // "tmis": the reader is constructed for another number of streams than the writer was (the format does not record it)
  int Tdec = B.T;
  for (auto &f : s.faults) if (f.kind == "tmis" && !f.a.empty()) Tdec = (int)f.a[0];
  VD r = verify_and_decrypt(s, F2, key, Tdec, HANG_VIOLATION);
  Verdict v;
  v.case_hash = case_hash_faults(s);
  v.nontrivial = d.any || Tdec != B.T;
  v.trace_hash = r.trace;
  Verdict x;
  long body = (long)F2.size() - 48 - 20 * Tdec;
  if (!tagok && r.vret) x = viol("inauthentic-file-verifies", "verify returned true for a file whose tag is not the HMAC of its contents");
  else if (!tagok && r.dret) x = viol("inauthentic-file-decrypts", "decrypt returned true for a file whose tag is not the HMAC of its contents");
  else if (!r.dret && !r.dout.empty()) x = viol("failed-decrypt-wrote-output", "decryption reported failure but wrote " + std::to_string(r.dout.size()) + " bytes");
  else if (r.dret && ((long)r.dout.size() > std::max<long>(body, 0) || r.cap_hit)) x = viol("decrypt-wrote-more-than-body", "successful decryption wrote " + std::to_string(r.dout.size()) + " bytes, ciphertext body holds " + std::to_string(body));
  else return v;
  x.trace_hash = v.trace_hash;
  x.case_hash = v.case_hash;
  return x;
}

// ---------------------------------------------------------------- C12

static long plan_C12(const std::string &tier) { return tier == "quick" ? 60000 : 3000000; }

static void gen_C12(const std::string &tier, uint64_t seed, long idx, Scn &s) {
  long k = idx / 3;
  switch (idx % 3) {
  case 0: gen_C05_like(tier, seed ^ 0x12, (k * 7919) % plan_C05(tier), s, "C12"); break;
  case 1: gen_C06_like(tier, seed ^ 0x12, (k * 104729) % plan_C06(tier), s, "C12"); break;
  default: gen_C11_like(tier, seed ^ 0x12, k % plan_C11(tier), s, "C12");
  }
  s.index = idx;
  s.seed = seed;
  if (idx % 11 == 0) s.faults.clear();   // untouched valid file with the right key
}

static Verdict run_C12(const Scn &s) {
  Baseline B = make_baseline(s, needs_second(s));
  if (!B.ok) return skipv(B.why);
  uint8_t key[16];
  memcpy(key, B.e.key, 16);
  Bytes F2 = apply_faults(s, B, key);
  {
    // known finding K1 (C05): a file whose only informative change is the cipher-mode byte still carries a valid tag and
    // is then decrypted with the wrong mode, with memory-layout dependent results; that is C05's finding, not a
    // verify/decrypt disagreement, so such inputs are left to C05
    Diff d = diff_files(B.F, F2, B.e.hmode);
    if (d.only_byte8 && F2[8] <= 4 && memcmp(key, B.e.key, 16) == 0) return skipv("known-finding-K1-region(left-to-C05)");
  }
  warm_up(s, B);
  VD r = verify_and_decrypt(s, F2, key, B.T, HANG_VIOLATION);
  Verdict v;
  v.case_hash = case_hash_faults(s);
  v.nontrivial = true;
  v.trace_hash = r.trace;
  if (r.vret) g_stats.add("probe.accepted_pairs", 1); else g_stats.add("probe.rejected_pairs", 1);
  Verdict x;
  if (r.vret != r.dret) x = viol(std::string("verify-") + (r.vret ? "true" : "false") + "-decrypt-" + (r.dret ? "true" : "false"), "verify and decrypt disagree on the same file and key");
  else if (r.vwrote) x = viol("verify-wrote-output", "verification wrote to its output stream");
  else if (!r.in_intact_v) x = viol("verify-modified-input", "verification wrote to / changed its input file");
  else if (!r.in_intact_d) x = viol("decrypt-modified-input", "decryption wrote to / changed its input file");
  else if (!B.input_intact) x = viol("encrypt-modified-input", "encryption wrote to / changed its input file");
  else return v;
  x.trace_hash = v.trace_hash;
  x.case_hash = v.case_hash;
  return x;
}

// ---------------------------------------------------------------- C13 crash points

static long plan_C13(const std::string &tier) { return tier == "quick" ? 2400 : 30000; }

static void gen_C13(const std::string &tier, uint64_t seed, long idx, Scn &s) {
  s.prop = "C13"; s.tier = tier; s.seed = seed; s.index = idx;
  Rng g(Rng::mix(seed, 0xC13, (uint64_t)idx));
  fill_file_cfg(g, s, 4, 5);
  // the write granularity below stdio is part of the scenario
  static const long bufs[] = {-1, 0, 16, 64, 4096, 1, 7};
  s.i["outb"] = bufs[idx % 7];
  pick_sched(g, s, 0, (int)s.geti("T"), false);
}

static Verdict run_C13(const Scn &s) {
  int T = (int)s.geti("T");
  long len = s.geti("len");
  Bytes P = make_plain(len, (uint64_t)s.geti("pseed"), (int)s.geti("ptype"), CHB());
  SimFile fin, fout;
  fin.data = P;
  OpSpec e = base_op(s, OP_ENC, 0, &fin, &fout, len);
  OpResult re = run_slot(s, e, 0, "enc", HANG_SKIP);
  if (!re.ret) return skipv("enc-false");
  const Bytes &Ffinal = fout.data;
  // the completely written file must itself be accepted, otherwise "only the complete file is accepted" says nothing here
  long total = 0;
  for (auto &w : fout.wlog) total += (long)w.data.size();
  Verdict v;
  v.case_hash = fnv1a_u64(case_hash_faults(s), (uint64_t)s.geti("outb"));
  v.nontrivial = true;
  uint64_t th = fnv1a(re.sr.trace_hash, Ffinal.data(), Ffinal.size());
  long only_k = s.geti("k", -1);
  // probe: where does the first non-zero byte of [10,48) appear relative to the last body write
  {
    long pos = 0, first_tag = -1, last_body = -1;
    for (auto &w : fout.wlog) {
      for (size_t q = 0; q < w.data.size(); q++) {
        long off = w.off + (long)q;
        if (off >= 10 && off < 48 && w.data[q] != 0 && first_tag < 0) first_tag = pos + (long)q;
        if (off >= 48 + 20 * T) last_body = pos + (long)q;
      }
      pos += (long)w.data.size();
    }
    if (first_tag >= 0 && first_tag < last_body) g_stats.add("probe.tag_bytes_before_last_body_byte", 1);
    else g_stats.add("probe.tag_written_last", 1);
  }
  Bytes st;
  long pos = 0;
  size_t wi = 0, wo = 0;
  long states = 0;
  auto check_state = [&](long k) -> Verdict {
    Verdict ok;
    if (st == Ffinal) { g_stats.add("probe.crash_state_equals_final", 1); return ok; }
    states++;
    g_stats.add("fault.crash_point", 1);
    VD r = verify_and_decrypt(s, st, e.key, T, HANG_VIOLATION);
    th = fnv1a_u64(th, r.trace);
    if (r.vret || r.dret || !r.dout.empty()) {
      Verdict x = viol(r.vret ? "partial-file-verifies" : (r.dret ? "partial-file-decrypts" : "partial-file-output-written"),
                       "after a crash at byte " + std::to_string(k) + " of " + std::to_string(total) + " of the write sequence (" + std::to_string(fout.wlog.size()) + " writes) the partial file (" +
                           std::to_string(st.size()) + " bytes) gave verify=" + (r.vret ? "true" : "false") + " decrypt=" + (r.dret ? "true" : "false"));
      return x;
    }
    return ok;
  };
  for (long k = 0; k <= total; k++) {
    // state after the first k bytes of the write stream
    if (only_k < 0 || only_k == k) {
      Verdict x = check_state(k);
      if (x.violation) {
        x.trace_hash = th;
        x.case_hash = v.case_hash;
        g_ctx.recorded.erase(1); g_ctx.recorded.erase(2);
        return x;
      }
    }
    if (k == total) break;
    // apply byte k
    while (wi < fout.wlog.size() && wo >= fout.wlog[wi].data.size()) { wi++; wo = 0; }
    const WriteRec &w = fout.wlog[wi];
    size_t off = (size_t)w.off + wo;
    if (off >= st.size()) st.resize(off + 1, 0);
    st[off] = w.data[wo];
    wo++;
    pos++;
  }
  g_stats.add("crash_states_checked", states);
  // finally: the complete file is accepted (sanity of the oracle, C01's business if not)
  v.trace_hash = th;
  return v;
}

// ---------------------------------------------------------------- C08 HMAC on streams

static long c08_maxlen() { return 3 * (long)build_hash_refill_bytes() + 70; }
static long plan_C08(const std::string &tier) {
  if (build_chunk_bytes() >= (1u << 20)) return tier == "quick" ? 0 : 3;
  long per = (c08_maxlen() + 1) * 4 * 3;       // lengths x offsets x hashes
  return tier == "quick" ? per + 2000 + 600 : per * 40 + 400000 + 120000;
}

static void gen_C08(const std::string &tier, uint64_t seed, long idx, Scn &s) {
  s.prop = "C08"; s.tier = tier; s.seed = seed; s.index = idx;
  Rng g(Rng::mix(seed, 0xC08, (uint64_t)idx));
  fill_base(g, s, 4);
  if (build_chunk_bytes() >= (1u << 20)) {   // production constants: one message of 2^29 + delta bytes per hash
    s.i["mode"] = 3; s.i["hm"] = idx % 3; s.i["mlen"] = (1L << 29) + 1 + (long)g.below(200);
    return;
  }
  long per = (c08_maxlen() + 1) * 4 * 3;
  long reps = tier == "quick" ? 1 : 40;
  if (idx < per * reps) {
    long k = idx % per;
    s.i["mode"] = 1;
    s.i["hm"] = k % 3; k /= 3;
    s.i["offk"] = k % 4; k /= 4;
    s.i["mlen"] = k;
    static const long offs[] = {0, 1, 48};
    s.i["off"] = s.i["offk"] < 3 ? offs[s.i["offk"]] : (long)g.below(200);
    if (g.chance(0.25)) s.i["prelude"] = (s.i["hm"] + 1 + (long)g.below(2)) % 3;
    return;
  }
  idx -= per * reps;
  long nfile = tier == "quick" ? 2000 : 400000;
  if (idx < nfile) { // (a) tag of a simulated encryption; lengths chosen to sweep (20T + body) mod 64
    s.i["mode"] = 0;
    int T = g.chance(0.8) ? 1 + (int)g.below(4) : (int)g.range(5, 16);
    s.i["T"] = T;
    s.i["len"] = (idx % 160) + (g.chance(0.3) ? (long)g.below(4 * CHB()) : 0);
    pick_sched(g, s, 0, T, true);
    s.i["wtag"] = idx % 4;   // whole-tag substitution tried on the finished file: 0 none, 1 zeros (the blank field), 2 ones, 3 complement
    return;
  }
  idx -= nfile;
  s.i["mode"] = 2;   // (c) tag comparison
  s.i["hm"] = idx % 3;
  s.i["mlen"] = (long)g.below(300);
  s.i["tb"] = (idx / 3) % 64;            // which byte of the 64-byte tag buffer is altered
  static const long pats[] = {0x01, 0x80, 0xFF};
  s.i["pat"] = pats[(idx / 192) % 3];
}

struct SynthFile { long len; uint64_t seed; };

static Verdict run_C08(const Scn &s) {
  int mode = (int)s.geti("mode");
  Verdict v;
  v.nontrivial = true;
  uint8_t key[16];
  const Bytes &kb = s.getb("key");
  memcpy(key, kb.data(), 16);
  int hm = (int)s.geti("hm");
  if (mode == 0) {
    int T = (int)s.geti("T");
    long len = s.geti("len");
    Bytes P = make_plain(len, (uint64_t)s.geti("pseed"), (int)s.geti("ptype"), CHB());
    SimFile fin, fout;
    fin.data = P;
    OpSpec e = base_op(s, OP_ENC, 0, &fin, &fout, len);
    OpResult re = run_slot(s, e, 0, "enc", HANG_SKIP);
    if (!re.ret) return skipv("enc-false");
    const Bytes &F = fout.data;
    if (F.size() < 74) return skipv("file-too-short");
    v.case_hash = fnv1a_u64(fnv1a_u64(FNV_INIT, (uint64_t)F.size()), (uint64_t)(hm * 16 + T));
    v.trace_hash = fnv1a(re.sr.trace_hash, F.data(), F.size());
    g_stats.add("probe.residue_" + std::to_string(((F.size() - 48 + 64) % 64) >= 56 ? 1 : 0), 1);
    Bytes t = ref_hmac(hm, key, F.data() + 48, F.size() - 48);
    if (memcmp(t.data(), &F[10], t.size()) != 0) {
      Verdict x = viol("file-tag-not-hmac", "tag at offset 10 is not HMAC(hash " + std::to_string(hm) + ") over bytes [48," + std::to_string(F.size()) + "); (64+" + std::to_string(F.size() - 48) + ") mod 64 = " + std::to_string((F.size() - 48) % 64));
      x.trace_hash = v.trace_hash;
      return x;
    }
    for (size_t q = 10 + t.size(); q < 48; q++)
      if (F[q] != 0) { Verdict x = viol("file-zero-fill", "byte " + std::to_string(q) + " between tag and offset 48 is not zero"); x.trace_hash = v.trace_hash; return x; }
    long wtag = s.geti("wtag", 0);
    if (wtag > 0) {
      // "accepts if and only if every tag byte matches", at the place where the stored tag is used: the same file with the
      // whole tag replaced (all zero = the field as it is before the tag is written, all ones, complement) must be rejected
      Bytes F2 = F;
      for (size_t q = 10; q < 10 + t.size(); q++) F2[q] = wtag == 1 ? 0x00 : wtag == 2 ? 0xFF : (uint8_t)~F[q];
      if (memcmp(&F2[10], &F[10], t.size()) != 0) {
        g_stats.add("fault.whole_tag_replaced", 1);
        SimFile fin2, fout2;
        fin2.data = F2;
        OpSpec ve = base_op(s, OP_VER, 1, &fin2, &fout2, (long)F2.size());
        memcpy(ve.key, key, 16);
        ve.T = T;
        OpResult rv = run_slot(s, ve, 1, "ver", HANG_SKIP);
        v.trace_hash = fnv1a_u64(v.trace_hash, rv.sr.trace_hash ^ (uint64_t)rv.ret);
        if (rv.ret) {
          Verdict x = viol("file-accepted-with-replaced-tag", std::string("verify accepted the file although its stored tag was replaced by ") + (wtag == 1 ? "zero bytes" : wtag == 2 ? "0xFF bytes" : "its complement"));
          x.trace_hash = v.trace_hash;
          return x;
        }
      }
    }
    return v;
  }
  long mlen = s.geti("mlen");
  if (mode == 3) {
    // one message of 2^29 + delta bytes: content is a function of the offset, nothing is stored
    SimFile f;
    f.synth = true; f.synth_len = mlen; f.synth_seed = (uint64_t)s.geti("pseed");
    FILE *fp = sim_fopen(&f, "rb", -1);
    uint8_t out[64];
    memset(out, 0, sizeof out);
    hmac h;
    h.gethmac((u8_t)hm, key, fp, out, 0);
    fclose(fp);
    Bytes want = ref_hmac_synth(hm, key, mlen, f.synth_seed);
    v.case_hash = fnv1a_u64(FNV_INIT, (uint64_t)mlen * 4 + hm);
    v.trace_hash = fnv1a(FNV_INIT, out, 32);
    g_stats.add("probe.message_over_2^29_bytes", 1);
    if (memcmp(out, want.data(), want.size()) != 0) {
      Verdict x = viol("hmac-value-large-message", "hmac::gethmac over " + std::to_string(mlen) + " bytes (>= 2^29, bit length needs more than 32 bits) differs from RFC 2104, hash " + std::to_string(hm));
      x.trace_hash = v.trace_hash;
      return x;
    }
    return v;
  }
  if (s.geti("prelude", -1) >= 0) {
    // an earlier tag computation with ANOTHER hash mode in the same process must not influence this one
    g_stats.add("probe.hmac_prelude_with_other_hash", 1);
    SimFile pf;
    pf.data.assign(37, 0x5A);
    FILE *pfp = sim_fopen(&pf, "rb", -1);
    uint8_t pout[64];
    hmac ph;
    ph.gethmac((u8_t)s.geti("prelude"), key, pfp, pout, 0);
    fclose(pfp);
  }
  long off = s.geti("off", 0);
  Bytes msg((size_t)mlen);
  Rng g(Rng::mix((uint64_t)s.geti("pseed"), 8));
  g.bytes(msg.data(), msg.size());
  SimFile f;
  f.data.assign((size_t)off, 0xEE);
  f.data.insert(f.data.end(), msg.begin(), msg.end());
  f.short_io = s.geti("sio") != 0;
  f.io_rng.reseed((uint64_t)s.geti("ioseed"));
  FILE *fp = sim_fopen(&f, "rb", (int)s.geti("inb", -1));
  fseek(fp, off, SEEK_SET);
  Bytes want = ref_hmac(hm, key, msg.data(), msg.size());
  v.case_hash = fnv1a_u64(fnv1a_u64(FNV_INIT, (uint64_t)mlen * 1000 + off), (uint64_t)(hm + 10 * mode + 100 * s.geti("tb") + 100000 * s.geti("pat")));
  hmac h;
  if (mode == 1) {
    uint8_t out[64];
    memset(out, 0, sizeof out);
    h.gethmac((u8_t)hm, key, fp, out, 0);
    fclose(fp);
    g_stats.add("fault.short_read", f.short_reads);
    v.trace_hash = fnv1a(FNV_INIT, out, 32);
    if (h.get_length() != want.size()) return viol("hmac-length", "hmac length " + std::to_string(h.get_length()) + " for hash mode " + std::to_string(hm));
    if (memcmp(out, want.data(), want.size()) != 0) {
      Verdict x = viol("hmac-value", "hmac::gethmac over " + std::to_string(mlen) + " bytes from offset " + std::to_string(off) + " (hash " + std::to_string(hm) + ") differs from RFC 2104; (64+len) mod 64 = " + std::to_string(mlen % 64));
      x.trace_hash = v.trace_hash;
      return x;
    }
    return v;
  }
  // mode 2: comparison accepts iff all hlen bytes match
  uint8_t tag[64];
  Rng g2(Rng::mix((uint64_t)s.geti("pseed"), 9));
  g2.bytes(tag, 64);
  memcpy(tag, want.data(), want.size());
  long tb = s.geti("tb", -1);
  bool expect = true;
  if (tb >= 0) {
    tag[tb] ^= (uint8_t)s.geti("pat", 1);
    if ((size_t)tb < want.size()) expect = false;
    g_stats.add("fault.tag_byte_corrupt", 1);
  }
  bool got = h.cmphmac((u8_t)hm, key, fp, tag, 0);
  fclose(fp);
  v.trace_hash = fnv1a_u64(FNV_INIT, got);
  if (got != expect) {
    Verdict x = viol(expect ? "cmphmac-rejects-correct-tag" : "cmphmac-accepts-wrong-tag",
                     std::string("cmphmac returned ") + (got ? "true" : "false") + " with tag byte " + std::to_string(tb) + " xor " + std::to_string(s.geti("pat")) + " (hlen " + std::to_string(want.size()) + ")");
    x.trace_hash = v.trace_hash;
    return x;
  }
  return v;
}

extern const PropDef PROPS_STORAGE[] = {
    {"C05", plan_C05, gen_C05, run_C05},
    {"C06", plan_C06, gen_C06, run_C06},
    {"C08", plan_C08, gen_C08, run_C08},
    {"C11", plan_C11, gen_C11, run_C11},
    {"C12", plan_C12, gen_C12, run_C12},
    {"C13", plan_C13, gen_C13, run_C13},
    {nullptr, nullptr, nullptr, nullptr}};
