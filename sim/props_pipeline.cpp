// Properties decided on the multi-threaded pipeline: C01, C02, C03, C04, C14, C18.
#include "harness.h"
#include <cstring>
#include <algorithm>
#include <set>

static size_t CHB() { return build_chunk_bytes(); }
static bool is_prod() { return CHB() >= (1u << 20); }

static uint64_t cfg_hash(const Scn &s) {
  uint64_t h = FNV_INIT;
  for (const char *k : {"T", "cm", "hm", "len", "pseed", "ptype", "op"}) h = fnv1a_u64(h, (uint64_t)s.geti(k, -7));
  const Bytes &key = s.getb("key");
  h = fnv1a(h, key.data(), key.size());
  const Bytes &sd = s.getb("seedstr");
  h = fnv1a(h, sd.data(), sd.size());
  return h;
}

static Verdict viol(const std::string &cls, const std::string &detail) {
  Verdict v;
  v.violation = true;
  v.cls = cls;
  v.detail = detail;
  return v;
}
static Verdict skip(const std::string &why) {
  Verdict v;
  v.skipped = true;
  v.skip_reason = why;
  return v;
}
static size_t first_diff(const Bytes &a, const Bytes &b) {
  size_t k = 0;
  while (k < a.size() && k < b.size() && a[k] == b[k]) k++;
  return k;
}

// ---------------------------------------------------------------- common generator pieces

static int pick_T(Rng &g, int maxT) {
  // biased to small T (cheap, and most interleavings of interest need 2-3 threads), but reaching maxT
  switch (g.below(10)) {
  case 0: return 1;
  case 1: case 2: case 3: return 2;
  case 4: case 5: return 3;
  case 6: return 4;
  case 7: return (int)g.range(5, std::min(8, maxT));
  case 8: return (int)g.range(1, maxT);
  default: return (int)g.range(2, std::min(4, maxT));
  }
}

// exhaustive window enumeration used by C01/C02: returns false when idx is beyond the window plan
static long window_count(int Tmax) {
  long n = 0;
  for (int T = 1; T <= Tmax; T++) n += ((2 * T + 2) * (long)CHB() + 18);
  return n;
}
static void window_at(long k, int Tmax, int &T, long &len) {
  for (T = 1; T <= Tmax; T++) {
    long c = (2 * T + 2) * (long)CHB() + 18;
    if (k < c) { len = k; return; }
    k -= c;
  }
  T = 1; len = 0;
}

static const long PROD_LENS_QUICK[] = {-16, -1, 0};

// ---------------------------------------------------------------- C01 round trip

static long plan_C01(const std::string &tier) {
  if (is_prod()) return tier == "quick" ? 3 : 60;
  if (tier == "quick") return 2 * window_count(4) + 1500;
  return 4 * window_count(8) + 60000;
}

static void gen_roundtrip_cfg(const std::string &tier, uint64_t seed, long idx, Scn &s, const char *prop) {
  s.prop = prop; s.tier = tier; s.seed = seed; s.index = idx;
  Rng g(Rng::mix(seed, fnv1a(FNV_INIT, prop, 3), (uint64_t)idx));
  fill_base(g, s, 4);
  if (is_prod()) {
    long ch = (long)CHB();
    if (tier == "quick") {
      s.i["T"] = 2; s.i["len"] = ch + PROD_LENS_QUICK[idx % 3];
    } else {
      static const int Ts[] = {1, 2, 4};
      long m = 1 + (idx / 20) % 2;          // 16 MiB, 32 MiB
      s.i["T"] = Ts[(idx / 40) % 3 == 0 ? idx % 3 : (idx % 3)];
      s.i["len"] = m * ch + ((idx % 20) - 18);   // -18 .. +1
    }
    s.i["ptype"] = 0;
    s.i["sio"] = 0;
    s.i["inb"] = -1; s.i["outb"] = -1;
    pick_sched(g, s, 0, (int)s.i["T"], false);
    pick_sched(g, s, 1, (int)s.i["T"], false);
    // keep prod runs cheap in scheduling points: long sticky runs
    s.i["st0"] = simsched::ST_STICKY; s.i["sp0"] = 9999;
    s.i["st1"] = simsched::ST_STICKY; s.i["sp1"] = 9999;
    return;
  }
  int Tmax = tier == "quick" ? 4 : 8;
  int rep = tier == "quick" ? 2 : 4;
  long W = window_count(Tmax);
  if (idx < rep * W) {
    int T; long len;
    window_at(idx % W, Tmax, T, len);
    s.i["T"] = T; s.i["len"] = len;
    long r = idx / W;
    // cycle modes so that over the window every (cm,hm) pair meets every residue class
    s.i["cm"] = (len + r * 2 + T) % 5;
    s.i["hm"] = (len / 5 + r) % 3;
    pick_sched(g, s, 0, T, true);
    pick_sched(g, s, 1, T, true);
    if (r == 0) { s.i["st0"] = simsched::ST_UNIFORM; s.i["st1"] = simsched::ST_UNIFORM; }
  } else {
    int T = g.chance(0.25) ? (int)g.range(9, 16) : pick_T(g, 16);
    s.i["T"] = T;
    s.i["len"] = pick_len(g, CHB(), T);
    pick_sched(g, s, 0, T, true);
    pick_sched(g, s, 1, T, true);
  }
}
static void gen_C01(const std::string &tier, uint64_t seed, long idx, Scn &s) {
  gen_roundtrip_cfg(tier, seed, idx, s, "C01");
  if (!is_prod() && idx % 23 == 7) s.i["fresh"] = 1;   // first operations of a pristine process
  if (!is_prod() && idx % 16 == 11) {                  // the command-line path: -e then -d, a pristine process each
    Rng g(Rng::mix(seed, 0xC01C, (uint64_t)idx));
    s.i["cli"] = 1;
    s.i["fresh"] = 0;
    s.i["len"] = g.chance(0.3) ? std::max<long>(0, (long)CHB() * (1 + (long)g.below(8)) - (long)g.below(3) * 16 + (long)g.below(2)) : (long)g.below(9 * CHB() + 1);
    s.i["t1"] = 1600000000 + (long)g.below(200000000);
    s.i["ss0"] = (long)(g.next() >> 2);
  }
}

static Verdict run_C01(const Scn &s) {
  if (s.geti("cli", 0)) return run_C01_cli(s);
  int T = (int)s.geti("T");
  long len = s.geti("len");
  Bytes P = make_plain(len, (uint64_t)s.geti("pseed"), (int)s.geti("ptype"), CHB());
  SimFile fin, fenc, fdec;
  fin.data = P;
  OpSpec e = base_op(s, OP_ENC, 0, &fin, &fenc, len);
  OpResult re = run_slot(s, e, 0, "enc", HANG_VIOLATION);
  Verdict v;
  v.case_hash = cfg_hash(s);
  v.nontrivial = true;
  v.trace_hash = fnv1a(re.sr.trace_hash, fenc.data.data(), fenc.data.size());
  if (!re.ret) return viol("enc-returned-false", "execute_encrypt returned false");
  SimFile fin2;
  fin2.data = fenc.data;
  OpSpec d = base_op(s, OP_DEC, 1, &fin2, &fdec, (long)fenc.data.size());
  OpResult rd = run_slot(s, d, 1, "dec", HANG_VIOLATION);
  v.trace_hash = fnv1a(fnv1a_u64(v.trace_hash, rd.sr.trace_hash), fdec.data.data(), fdec.data.size());
  if (!rd.ret) { Verdict x = viol("dec-returned-false", "execute_decrypt of the freshly encrypted file returned false"); x.trace_hash = v.trace_hash; return x; }
  if (fdec.data.size() != P.size()) {
    Verdict x = viol("length-differs", "decrypted length " + std::to_string(fdec.data.size()) + " != plaintext length " + std::to_string(P.size()));
    x.trace_hash = v.trace_hash;
    return x;
  }
  if (fdec.data != P) {
    Verdict x = viol("bytes-differ", "decrypted bytes differ from plaintext, first at offset " + std::to_string(first_diff(fdec.data, P)));
    x.trace_hash = v.trace_hash;
    return x;
  }
  return v;
}

// ---------------------------------------------------------------- C02 format equals reference

static long plan_C02(const std::string &tier) {
  if (is_prod()) return tier == "quick" ? 2 : 12;
  if (tier == "quick") return window_count(4) + 3000;
  return 2 * window_count(8) + 80000;
}

// search a seed string whose SHA-1 has `nff` trailing 0xFF bytes inside the first 16 bytes (IV_0[16-nff..16))
static Bytes seed_with_ff(Rng &g, int nff) {
  for (long tries = 0; tries < (nff == 1 ? 20000 : 600000); tries++) {
    Bytes sd(8);
    for (auto &c : sd) c = (uint8_t)(1 + g.below(255));
    Bytes h = ref_hash(0, sd.data(), sd.size());
    bool ok = true;
    for (int k = 0; k < nff; k++) if (h[15 - k] != 0xFF) ok = false;
    if (ok) return sd;
  }
  return Bytes{'x'};
}

static void gen_C02(const std::string &tier, uint64_t seed, long idx, Scn &s) {
  gen_roundtrip_cfg(tier, seed, idx, s, "C02");
  if (is_prod()) {
    s.i["len"] = (long)CHB() * 2 + (idx % 2 ? 5 : -16);   // 3 chunks, two streams
    s.i["T"] = 2;
    return;
  }
  int Tmax = tier == "quick" ? 4 : 8;
  long W = window_count(Tmax) * (tier == "quick" ? 1 : 2);
  Rng g(Rng::mix(seed, 0xC02, (uint64_t)idx));
  if (idx % 16 == 7) {   // the command-line path: key given as a string, modes as options, seed drawn from the (simulated) clock
    s.i["cli"] = 1;
    s.i["len"] = g.chance(0.3) ? (long)CHB() * (1 + (long)g.below(8)) - (long)g.below(2) * 16 : (long)g.below(9 * CHB() + 1);
    s.i["t1"] = 1600000000 + (long)g.below(200000000);
    s.i["ss0"] = (long)(g.next() >> 2);
    return;
  }
  if (idx >= W) {
    long r = idx - W;
    switch (r % 8) {
    case 0: { // counter carries through the real pipeline
      int nff = (r % 64 == 0 && tier != "quick") ? 2 : 1;
      s.b["seedstr"] = seed_with_ff(g, nff);
      if (r % 32 == 8) {
        // seeds found off-line (tools/ffseed.c): SHA-1 ends IV_0[13..16) resp. IV_0[12..16) in 0xFF -> carry across 3 / 4 bytes
        static const char *pre[] = {"AAcipddaaaaa", "AAnfclbkaaaa", "CAdgckofjhaa"};
        const char *p = pre[(r / 32) % 3];
        s.b["seedstr"] = Bytes(p, p + 12);
      }
      s.i["cm"] = 2;
      int T = 1 + (int)g.below(3);
      s.i["T"] = T;
      s.i["len"] = (long)CHB() * T * (2 + g.below(3)) + g.range(0, 40);   // several blocks / chunks per stream
      break;
    }
    case 1: { // >= 3 chunks per stream
      int T = 1 + (int)g.below(4);
      s.i["T"] = T;
      s.i["len"] = (long)CHB() * T * 3 + (long)g.below(CHB() * T + 1);
      break;
    }
    case 2: { // equal chunks / equal blocks: ECB visible, others must differ
      s.i["ptype"] = g.chance(0.5) ? 2 : 4;
      break;
    }
    default: break;
    }
  }
}

static std::string describe_format_diff(const Bytes &got, const Bytes &ref, int T, int hm, std::string &cls) {
  if (got.size() != ref.size()) { cls = "length"; return "file length " + std::to_string(got.size()) + " != 48+20T+16(floor(n/16)+1) = " + std::to_string(ref.size()); }
  size_t k = first_diff(got, ref);
  size_t hl = (size_t)ref_hlen(hm);
  if (k < 8) cls = "magic";
  else if (k < 10) cls = "mode-bytes";
  else if (k < 10 + hl) cls = "tag";
  else if (k < 48) cls = "zero-fill";
  else if (k < 48 + 20 * (size_t)T) cls = "iv-chain";
  else cls = "body";
  return "first differing byte at offset " + std::to_string(k) + " (" + cls + ")";
}

static Verdict run_C02(const Scn &s) {
  if (s.geti("cli", 0)) return run_C02_cli(s);
  int T = (int)s.geti("T");
  long len = s.geti("len");
  Bytes P = make_plain(len, (uint64_t)s.geti("pseed"), (int)s.geti("ptype"), CHB());
  SimFile fin, fenc;
  fin.data = P;
  OpSpec e = base_op(s, OP_ENC, 0, &fin, &fenc, len);
  OpResult re = run_slot(s, e, 0, "enc", HANG_SKIP);
  Verdict v;
  v.case_hash = cfg_hash(s);
  v.nontrivial = true;
  v.trace_hash = fnv1a(re.sr.trace_hash, fenc.data.data(), fenc.data.size());
  if (!re.ret) return viol("enc-returned-false", "execute_encrypt returned false");
  if (fin.data != P || !fin.wlog.empty()) return viol("input-modified", "the input stream was written to or its bytes changed");
  Bytes R = ref_encrypt_file(P, e.key, e.cmode, e.hmode, e.seedstr, T, CHB());
  if (fenc.data != R) {
    std::string cls;
    std::string d = describe_format_diff(fenc.data, R, T, e.hmode, cls);
    Verdict x = viol("format:" + cls, d);
    x.trace_hash = v.trace_hash;
    return x;
  }
  // plaintext must not appear untransformed: implied by equality with R for cm != none; counted as probe
  if (e.cmode == 2 && !e.seedstr.empty()) {
    Bytes ivs = ref_iv_chain(e.seedstr, 1);
    if (ivs[15] == 0xFF) g_stats.add("probe.ctr_carry_iv", 1);
    if (ivs[15] == 0xFF && ivs[14] == 0xFF) g_stats.add("probe.ctr_carry_iv2", 1);
    if (ivs[15] == 0xFF && ivs[14] == 0xFF && ivs[13] == 0xFF) g_stats.add("probe.ctr_carry_iv3", 1);
    if (ivs[15] == 0xFF && ivs[14] == 0xFF && ivs[13] == 0xFF && ivs[12] == 0xFF) g_stats.add("probe.ctr_carry_iv4", 1);
  }
  return v;
}

// ---------------------------------------------------------------- ledger L (exactly-once), address free

struct LedgerIn {
  bool enc;
  int T;
  size_t CH;
  const Bytes *input;   // plaintext (enc) or ciphertext body (dec)
  const Bytes *output;  // whole output file
  size_t out_skip;      // header bytes in front of the body in the output (enc) / 0 (dec)
};

static std::string ledger_check(const LedgerIn &L, const std::vector<std::vector<SpyCall>> &spy) {
  const Bytes &in = *L.input;
  size_t n = in.size();
  size_t nb = n / 16, tail = n % 16;
  if ((int)spy.size() != L.T) return "stream-count: " + std::to_string(spy.size()) + " cipher streams created for T=" + std::to_string(L.T);
  // one thread per stream, distinct, never the I/O thread
  std::vector<int> owner(L.T, -1);
  for (int s = 0; s < L.T; s++)
    for (auto &c : spy[s]) {
      if (owner[s] == -1) owner[s] = c.tid;
      else if (owner[s] != c.tid) return "stream-shared: stream " + std::to_string(s) + " used by threads t" + std::to_string(owner[s]) + " and t" + std::to_string(c.tid);
      if (c.tid == 0) return "stream-on-io-thread: stream " + std::to_string(s) + " was run by the I/O thread";
    }
  for (int a = 0; a < L.T; a++)
    for (int b = a + 1; b < L.T; b++)
      if (owner[a] != -1 && owner[a] == owner[b]) return "thread-two-streams: thread t" + std::to_string(owner[a]) + " ran streams " + std::to_string(a) + " and " + std::to_string(b);
  // expected input blocks per stream
  std::vector<size_t> pos(L.T, 0);
  size_t total_calls = 0;
  for (auto &v : spy) total_calls += v.size();
  bool extra_block = false;
  size_t max_blocks = nb + 1;
  if (!L.enc && tail == 0) max_blocks = nb;
  if (total_calls > max_blocks) return "transformed-too-many: " + std::to_string(total_calls) + " block transforms for " + std::to_string(nb) + " full input blocks (duplicate transform)";
  if (total_calls < nb) return "transformed-too-few: " + std::to_string(total_calls) + " block transforms for " + std::to_string(nb) + " full input blocks (dropped / untransformed chunk)";
  extra_block = total_calls == nb + 1;
  if (L.enc && tail != 0 && !extra_block) return "transformed-too-few: final partial block was not transformed";
  Bytes body;
  body.reserve(total_calls * 16);
  for (size_t g = 0; g < total_calls; g++) {
    size_t chunk = (g * 16) / L.CH;
    int s = (int)(chunk % L.T);
    if (pos[s] >= spy[s].size()) return "wrong-owner: block " + std::to_string(g) + " (chunk " + std::to_string(chunk) + ") was not transformed by stream " + std::to_string(s);
    const SpyCall &c = spy[s][pos[s]++];
    size_t cmp = g < nb ? 16 : tail;
    if (memcmp(c.in, in.data() + g * 16, cmp) != 0)
      return "wrong-block: stream " + std::to_string(s) + " call " + std::to_string(pos[s] - 1) + " did not receive input block " + std::to_string(g) + " (reordered / duplicated / foreign data)";
    body.insert(body.end(), c.out, c.out + 16);
  }
  for (int s = 0; s < L.T; s++)
    if (pos[s] != spy[s].size()) return "wrong-owner: stream " + std::to_string(s) + " transformed " + std::to_string(spy[s].size()) + " blocks but owns " + std::to_string(pos[s]);
  // output placement
  const Bytes &out = *L.output;
  if (L.enc) {
    if (out.size() < L.out_skip) return "output-short: output shorter than the header";
    size_t blen = out.size() - L.out_skip;
    if (blen != body.size()) return "output-length: body holds " + std::to_string(blen) + " bytes, transforms produced " + std::to_string(body.size());
    if (memcmp(out.data() + L.out_skip, body.data(), blen) != 0) {
      size_t k = 0;
      while (out[L.out_skip + k] == body[k]) k++;
      return "output-bytes: body byte " + std::to_string(k) + " (block " + std::to_string(k / 16) + ") is not what its stream produced (untransformed / misplaced)";
    }
  } else {
    if (body.empty()) { if (!out.empty()) return "output-length: output written for an empty body"; return ""; }
    unsigned pad = body.back();
    if (pad >= 1 && pad <= 16 && body.size() >= pad) {
      if (out.size() != body.size() - pad) return "output-length: plaintext holds " + std::to_string(out.size()) + " bytes, transforms produced " + std::to_string(body.size()) + " minus pad " + std::to_string(pad);
    }
    size_t m = std::min(out.size(), body.size());
    if (memcmp(out.data(), body.data(), m) != 0) {
      size_t k = 0;
      while (out[k] == body[k]) k++;
      return "output-bytes: output byte " + std::to_string(k) + " is not what its stream produced (untransformed / misplaced)";
    }
  }
  return "";
}

// ---------------------------------------------------------------- C03 / C14 schedule exploration

static long main_C03(const std::string &tier) { return tier == "quick" ? 400 * 60 : 5000 * 300; }
static long enum_cfgs(const std::string &tier) { return tier == "quick" ? 6 : 150; }
static long plan_C03(const std::string &tier) {
  if (is_prod()) return tier == "quick" ? 2 : 8;
  return main_C03(tier) + enum_cfgs(tier) * ENUM_PER_CFG;
}

// small configurations for the bounded-preemption enumeration (few decision points, so that ENUM_MAXK covers them)
static void enum_cfg(Rng &g, Scn &s) {
  fill_base(g, s, 3);
  int T = g.chance(0.6) ? 2 : (g.chance(0.5) ? 1 : 3);
  long ch = (long)CHB();
  long chunks = (long)g.below(4);
  long len = chunks * ch + (g.chance(0.4) ? 0 : (long)g.below(ch));
  if (g.chance(0.3)) len = std::max<long>(0, (chunks + 1) * ch - 1 - (long)g.below(16));
  if (len > 96) len = 96 - (long)g.below(17);          // keep the number of decision points below ENUM_MAXK
  s.i["T"] = T;
  s.i["len"] = len;
  s.i["sio"] = 0; s.i["inb"] = -1; s.i["outb"] = -1;
  s.i["enum"] = 1;
}

static void gen_sched_cfg(const std::string &tier, uint64_t seed, long idx, Scn &s, const char *prop, int K) {
  s.prop = prop; s.tier = tier; s.seed = seed; s.index = idx;
  if (!is_prod() && idx >= main_C03(tier)) {
    long e = (idx - main_C03(tier)) / ENUM_PER_CFG, j = (idx - main_C03(tier)) % ENUM_PER_CFG;
    Rng g(Rng::mix(seed, 0xE03, (uint64_t)e));
    enum_cfg(g, s);
    s.i["op"] = e % 2;
    Rng gs(Rng::mix(seed, 0xE03E, (uint64_t)idx));
    enum_sched(gs, s, 1, j);
    return;
  }
  long cfgi = idx / K;
  Rng g(Rng::mix(seed, 0xC03, (uint64_t)cfgi));     // C03 and C14 share configurations on purpose
  fill_base(g, s, 4);
  int T = pick_T(g, 16);
  if (is_prod()) {
    T = 2;
    s.i["len"] = (long)CHB() + (idx % 2 ? 7 : -3);
    s.i["sio"] = 0; s.i["inb"] = -1; s.i["outb"] = -1;
  } else {
    s.i["len"] = pick_len(g, CHB(), T);
  }
  s.i["T"] = T;
  s.i["op"] = cfgi % 2;   // 0 = explore encrypt, 1 = explore decrypt
  Rng gs(Rng::mix(seed, fnv1a(FNV_INIT, prop, 3), (uint64_t)idx));
  pick_sched(gs, s, 1, T, true);
  if (std::string(prop) == "C14" && gs.chance(0.5)) s.i["st1"] = simsched::ST_HOOKBIAS;
  if (!is_prod() && idx % 19 == 5) s.i["fresh"] = 1;   // explored operation = first pipeline operation of a pristine process
  if (is_prod()) { s.i["st1"] = simsched::ST_STICKY; s.i["sp1"] = 9999; }
}
static void gen_C03(const std::string &tier, uint64_t seed, long idx, Scn &s) { gen_sched_cfg(tier, seed, idx, s, "C03", tier == "quick" ? 60 : 300); }
static void gen_C14(const std::string &tier, uint64_t seed, long idx, Scn &s) { gen_sched_cfg(tier, seed, idx, s, "C14", tier == "quick" ? 60 : 300); }

struct Explored {
  bool skipped = false;
  std::string skip_reason;
  bool can_ret = false, exp_ret = false;
  Bytes can_out, exp_out, input, P;
  OpResult exp;
  OpResult can;
  bool enc = true;
  int T = 1;
};

// slot 0: canonical encrypt producing the input for decrypt exploration (or the canonical op itself)
// slot 1: the explored schedule; slot 2: canonical schedule of the explored operation
static Explored explore(const Scn &s, HangPolicy explored_hp = HANG_VIOLATION) {
  Explored X;
  X.T = (int)s.geti("T");
  long len = s.geti("len");
  X.enc = s.geti("op") == 0;
  X.P = make_plain(len, (uint64_t)s.geti("pseed"), (int)s.geti("ptype"), CHB());
  Scn canon = s;   // canonical: rr, no faults, plain I/O
  if (X.enc) {
    X.input = X.P;
    auto canonical = [&]() {
      SimFile fin, fout;
      fin.data = X.P;
      OpSpec e = base_op(s, OP_ENC, 2, &fin, &fout, len);
      e.sc = sc_canonical(len, X.T);
      e.short_io = false; e.inbuf = -1; e.outbuf = -1;
      X.can = run_slot(s, e, 2, "enc(canonical)", HANG_SKIP);
      X.can_ret = X.can.ret;
      X.can_out = fout.data;
    };
    auto explored = [&]() {
      SimFile fin, fout;
      fin.data = X.P;
      OpSpec e = base_op(s, OP_ENC, 1, &fin, &fout, len);
      X.exp = run_slot(s, e, 1, "enc", explored_hp);
      X.exp_ret = X.exp.ret;
      X.exp_out = fout.data;
    };
    // in a pristine process the explored schedule goes first, so that whatever the code initialises lazily is initialised
    // under it (a hang of the canonical run afterwards is then reported like any other)
    if (s.geti("fresh")) { explored(); canonical(); } else { canonical(); explored(); }
  } else {
    Bytes F;
    {
      SimFile fin, fout;
      fin.data = X.P;
      OpSpec e = base_op(s, OP_ENC, 0, &fin, &fout, len);
      e.sc = sc_canonical(len, X.T);
      e.short_io = false; e.inbuf = -1; e.outbuf = -1;
      OpResult r = run_slot(s, e, 0, "enc(input)", HANG_SKIP);
      if (!r.ret) { X.skipped = true; X.skip_reason = "baseline-enc-false"; return X; }
      F = fout.data;
    }
    X.input = F;
    auto canonical = [&]() {
      SimFile fin, fout;
      fin.data = F;
      OpSpec d = base_op(s, OP_DEC, 2, &fin, &fout, (long)F.size());
      d.sc = sc_canonical((long)F.size(), X.T);
      d.short_io = false; d.inbuf = -1; d.outbuf = -1;
      X.can = run_slot(s, d, 2, "dec(canonical)", HANG_SKIP);
      X.can_ret = X.can.ret;
      X.can_out = fout.data;
    };
    auto explored = [&]() {
      SimFile fin, fout;
      fin.data = F;
      OpSpec d = base_op(s, OP_DEC, 1, &fin, &fout, (long)F.size());
      X.exp = run_slot(s, d, 1, "dec", explored_hp);
      X.exp_ret = X.exp.ret;
      X.exp_out = fout.data;
    };
    if (s.geti("fresh")) { explored(); canonical(); } else { canonical(); explored(); }
  }
  return X;
}

static void enum_probe(const Scn &s, const Explored &X) {
  if (!s.geti("enum")) return;
  g_stats.add("enum.runs", 1);
  if (X.exp.sr.decision_points > ENUM_MAXK) g_stats.add("enum.runs_with_more_decision_points_than_enumerated", 1);
  g_stats.max("enum.max_decision_points_in_a_run", X.exp.sr.decision_points);
  if (s.geti("ea1", -1) >= X.exp.sr.decision_points) g_stats.add("enum.preemption_index_beyond_end(equals canonical)", 1);
  if (X.exp.sr.preemptions > 0) g_stats.add("enum.runs_with_forced_preemption", 1);
}

static Verdict run_C03(const Scn &s) {
  Explored X = explore(s);
  if (X.skipped) return skip(X.skip_reason);
  enum_probe(s, X);
  Verdict v;
  v.case_hash = fnv1a_u64(cfg_hash(s), X.exp.sr.trace_hash);
  v.nontrivial = X.T >= 2 && X.exp.sr.preemptions >= 1;
  v.trace_hash = fnv1a(X.exp.sr.trace_hash, X.exp_out.data(), X.exp_out.size());
  const char *on = X.enc ? "enc" : "dec";
  auto V = [&](const std::string &c, const std::string &d) { Verdict x = viol(c + "@" + on, d); x.trace_hash = v.trace_hash; return x; };
  if (X.exp_ret != X.can_ret) return V("result-differs", std::string("result under the explored schedule is ") + (X.exp_ret ? "true" : "false") + ", under the canonical schedule " + (X.can_ret ? "true" : "false"));
  if (X.exp_out != X.can_out) {
    return V("bytes-differ", "output under the explored schedule differs from the canonical schedule's: lengths " + std::to_string(X.exp_out.size()) + " / " + std::to_string(X.can_out.size()) +
                                        ", first difference at " + std::to_string(first_diff(X.exp_out, X.can_out)));
  }
  if (!X.exp_ret) return v;   // both failed identically: nothing more to say here
  // ledger on both runs
  for (int which = 0; which < 2; which++) {
    const OpResult &r = which ? X.can : X.exp;
    const Bytes &out = which ? X.can_out : X.exp_out;
    LedgerIn L;
    L.enc = X.enc; L.T = X.T; L.CH = CHB();
    Bytes body;
    if (X.enc) { L.input = &X.P; L.out_skip = 48 + 20 * (size_t)X.T; }
    else {
      size_t hs = 48 + 20 * (size_t)X.T;
      if (X.input.size() >= hs) body.assign(X.input.begin() + hs, X.input.end());
      L.input = &body; L.out_skip = 0;
    }
    L.output = &out;
    std::string e = ledger_check(L, r.spy);
    if (!e.empty()) {
      std::string cls = e.substr(0, e.find(':'));
      return V("ledger-" + cls, std::string(which ? "canonical schedule: " : "explored schedule: ") + e);
    }
  }
  return v;
}

static long plan_C14(const std::string &tier) { return plan_C03(tier); }

static Verdict run_C14(const Scn &s) {
  Explored X = explore(s, HANG_MONITOR_ONLY);   // termination is C04's statement, not C14's
  if (X.skipped) return skip(X.skip_reason);
  enum_probe(s, X);
  Verdict v;
  v.case_hash = fnv1a_u64(cfg_hash(s), X.exp.sr.trace_hash);
  v.nontrivial = X.T >= 2 && X.exp.sr.preemptions >= 1;
  v.trace_hash = X.exp.sr.trace_hash;
  const char *on = X.enc ? "enc" : "dec";
  for (int which = 0; which < 2; which++) {
    const OpResult &r = which ? X.can : X.exp;
    if (!r.sr.mon.empty()) {
      const auto &m = r.sr.mon[0];
      Verdict x = viol("monitor-" + m.cls + "@" + on, std::string(which ? "canonical schedule, step " : "explored schedule, step ") + std::to_string(m.step) + ": " + m.detail);
      x.trace_hash = v.trace_hash;
      return x;
    }
    // chunks of one worker in file order + exactly one worker per chunk: ledger ownership part
    if (r.ret) {
      LedgerIn L;
      L.enc = X.enc; L.T = X.T; L.CH = CHB();
      Bytes body;
      const Bytes &out = which ? X.can_out : X.exp_out;
      if (X.enc) { L.input = &X.P; L.out_skip = 48 + 20 * (size_t)X.T; }
      else {
        size_t hs = 48 + 20 * (size_t)X.T;
        if (X.input.size() >= hs) body.assign(X.input.begin() + hs, X.input.end());
        L.input = &body; L.out_skip = 0;
      }
      L.output = &out;
      std::string e = ledger_check(L, r.spy);
      std::string cls = e.substr(0, e.find(':'));
      if (cls == "stream-shared" || cls == "stream-on-io-thread" || cls == "thread-two-streams" || cls == "wrong-owner" || cls == "wrong-block") {
        Verdict x = viol("ownership-" + cls + "@" + on, e);
        x.trace_hash = v.trace_hash;
        return x;
      }
    }
  }
  return v;
}

// ---------------------------------------------------------------- C04 termination

static long main_C04(const std::string &tier) { return tier == "quick" ? 40000 : 2000000; }
static long plan_C04(const std::string &tier) {
  if (is_prod()) return tier == "quick" ? 3 : 12;
  return main_C04(tier) + enum_cfgs(tier) * ENUM_PER_CFG;
}

static void gen_C04(const std::string &tier, uint64_t seed, long idx, Scn &s) {
  s.prop = "C04"; s.tier = tier; s.seed = seed; s.index = idx;
  if (!is_prod() && idx >= main_C04(tier)) {
    long e = (idx - main_C04(tier)) / ENUM_PER_CFG, j = (idx - main_C04(tier)) % ENUM_PER_CFG;
    Rng ge(Rng::mix(seed, 0xE04, (uint64_t)e));
    enum_cfg(ge, s);
    s.i["op"] = e % 2;       // 0 enc, 1 dec
    Rng gs(Rng::mix(seed, 0xE04E, (uint64_t)idx));
    enum_sched(gs, s, 1, j);
    return;
  }
  Rng g(Rng::mix(seed, 0xC04, (uint64_t)idx));
  fill_base(g, s, 4);
  long ch = (long)CHB();
  int T;
  long len;
  if (is_prod()) {
    T = 2;
    static const long d[] = {-16, -1, 0};
    len = ch + d[idx % 3];
    s.i["sio"] = 0; s.i["inb"] = -1; s.i["outb"] = -1;
  } else {
    switch (g.below(8)) {
    case 0: T = (int)g.range(1, 16); len = 0; break;                                   // empty input
    case 1: T = 16; len = g.range(0, 15); break;                                       // 16 workers, one block
    case 2: T = (int)g.range(2, 16); len = g.range(0, std::max<long>(0, (T - 1) * ch - 1)); break;  // more workers than chunks
    case 3: case 4: case 5: {                                                          // ciphertext body an exact chunk multiple
      T = pick_T(g, 16);
      long m = 1 + (long)g.below(2 * T + 2);
      len = m * ch - 1 - (long)g.below(16);
      break;
    }
    default: T = pick_T(g, 16); len = pick_len(g, CHB(), T);
    }
  }
  s.i["T"] = T;
  s.i["len"] = len;
  s.i["op"] = (long)g.below(3);   // 0 enc, 1 dec, 2 verify
  pick_sched(g, s, 1, T, true);
  if (g.chance(0.3)) { s.i["st1"] = simsched::ST_STARVE; s.i["sp1"] = (long)g.below(T + 1); }
  if (g.chance(0.3)) s.i["sw1"] = 8;
  if (is_prod()) { s.i["st1"] = simsched::ST_STICKY; s.i["sp1"] = 9999; s.i["sw1"] = 2; }
  if (!is_prod() && idx % 19 == 5) s.i["fresh"] = 1;
  if (!is_prod() && s.i["op"] != 0 && g.chance(0.1)) { int t2 = 1 + (int)g.below(16); if (t2 != T) s.i["Tdec"] = t2; }
  if (!is_prod() && s.i["op"] == 0 && g.chance(0.15)) {
    if (g.chance(0.5)) s.i["rerr"] = (long)g.below((uint64_t)len + 1);
    else s.i["werr"] = (long)g.below((uint64_t)(48 + 20 * T + len + 16) + 1);
  }
}

static Verdict run_C04(const Scn &s) {
  int T = (int)s.geti("T");
  long len = s.geti("len");
  int op = (int)s.geti("op");
  Bytes P = make_plain(len, (uint64_t)s.geti("pseed"), (int)s.geti("ptype"), CHB());
  Verdict v;
  v.nontrivial = true;
  SimFile fin, fenc;
  fin.data = P;
  OpResult r;
  if (op == 0) {
    // I/O faults while the pipeline runs: the input becomes unreadable from some offset on (EIO), the disk fills up
    if (s.geti("rerr", -1) >= 0) fin.read_err_at = s.geti("rerr");
    if (s.geti("werr", -1) >= 0) fenc.size_cap = s.geti("werr");
    OpSpec e = base_op(s, OP_ENC, 1, &fin, &fenc, len);
    r = run_slot(s, e, 1, "enc", HANG_VIOLATION);
    if (fin.read_errors) g_stats.add("fault.read_error_EIO", fin.read_errors);
    if (fenc.cap_hit) g_stats.add("fault.disk_full_ENOSPC", 1);
  } else {
    OpSpec e = base_op(s, OP_ENC, 0, &fin, &fenc, len);
    e.sc = sc_canonical(len, T);
    e.short_io = false; e.inbuf = -1; e.outbuf = -1;
    OpResult re = run_slot(s, e, 0, "enc(input)", HANG_SKIP);
    if (!re.ret) return skip("baseline-enc-false");
    SimFile fin2, fout;
    fin2.data = fenc.data;
    OpSpec d = base_op(s, op == 1 ? OP_DEC : OP_VER, 1, &fin2, op == 1 ? &fout : nullptr, (long)fenc.data.size());
    if (s.geti("Tdec", 0) > 0) { d.T = (int)s.geti("Tdec"); g_stats.add("fault.reader_thread_count_differs", 1); }   // the format does not record the writer's thread count
    r = run_slot(s, d, 1, op == 1 ? "dec" : "ver", HANG_VIOLATION);
  }
  // returning at all is the property; the scheduler's fail handler reports deadlock / budget / unjoined threads
  v.case_hash = fnv1a_u64(cfg_hash(s), r.sr.trace_hash);
  v.trace_hash = r.sr.trace_hash;
  if (op != 2 && r.sr.threads_created != T && s.geti("Tdec", 0) == 0) g_stats.add("probe.threads_created_ne_T", 1);
  if (s.geti("enum")) {
    g_stats.add("enum.runs", 1);
    if (r.sr.decision_points > ENUM_MAXK) g_stats.add("enum.runs_with_more_decision_points_than_enumerated", 1);
    if (r.sr.preemptions > 0) g_stats.add("enum.runs_with_forced_preemption", 1);
  }
  return v;
}

// ---------------------------------------------------------------- C18 per-stream IVs

static long plan_C18(const std::string &tier) {
  if (is_prod()) return tier == "quick" ? 1 : 4;
  return tier == "quick" ? 2000 : 200000;
}

static void gen_C18(const std::string &tier, uint64_t seed, long idx, Scn &s) {
  s.prop = "C18"; s.tier = tier; s.seed = seed; s.index = idx;
  Rng g(Rng::mix(seed, 0xC18, (uint64_t)idx));
  fill_base(g, s, 4);
  if (!is_prod() && idx % 16 == 3) {
    // one long CTR/OFB stream per worker (> 256 blocks): no keystream block may be used twice inside a stream either
    s.i["longstream"] = 1;
    int T = 1 + (int)g.below(2);
    s.i["T"] = T;
    s.i["cm"] = g.chance(0.7) ? 2 : 4;
    s.i["len"] = (long)T * 16 * (258 + (long)g.below(40)) + (long)g.below(16);
    s.i["ptype"] = g.chance(0.5) ? 3 : 0;
    s.i["sio"] = 0;
    pick_sched(g, s, 0, T, false);
    s.i["st0"] = simsched::ST_STICKY; s.i["sp0"] = 990;
    return;
  }
  if (!is_prod() && idx % 8 == 5) {   // the command-line path: seed = 256 rand() bytes drawn from the (simulated) clock
    s.i["cli"] = 1;
    s.i["cm"] = 1 + (long)g.below(4);
    s.i["len"] = (long)g.below(3 * CHB() + 1);
    s.i["t1"] = 1600000000 + (long)g.below(200000000);
    s.i["t2"] = s.i["t1"] + 1 + (long)g.below(100000);
    s.i["ss0"] = (long)(g.next() >> 2);
    return;
  }
  int T = is_prod() ? 2 : (g.chance(0.6) ? (int)g.range(2, 6) : (int)g.range(7, 16));   // every thread count: the IV table has one slot per worker
  s.i["T"] = T;
  s.i["cm"] = 1 + (long)g.below(4);
  long ch = (long)CHB();
  long chunks = T + (long)g.below(2 * T + 1);           // >= T chunks: every stream gets at least one
  if (ch == 16) chunks += T;                              // one block per chunk: every stream needs two blocks (see run_C18)
  s.i["len"] = is_prod() ? ch * 2 + 5 : chunks * ch - (long)g.below(16);
  s.i["ptype"] = g.chance(0.5) ? 2 : 0;                 // equal plaintext chunks half of the time
  if (is_prod()) { s.i["ptype"] = 2; s.i["sio"] = 0; s.i["inb"] = -1; s.i["outb"] = -1; }
  Bytes sd2 = s.b["seedstr"];
  // the second seed differs from the first in ONE place, anywhere: a byte changed at a random position, the first byte
  // changed, or a byte appended - an IV derivation that ignores part of the seed shows
  auto bump = [](uint8_t v) { return (uint8_t)(v == 1 ? 2 : v - 1); };
  int how = sd2.empty() ? 2 : (int)g.below(3);
  if (how == 2 && g.chance(0.5) && !sd2.empty()) how = 0;
  if (how == 0) { size_t k = g.below(sd2.size()); sd2[k] = bump(sd2[k]); }
  else if (how == 1) sd2[0] = bump(sd2[0]);
  else sd2.push_back((uint8_t)(1 + g.below(255)));
  s.b["seedstr2"] = sd2;
  pick_sched(g, s, 0, T, false);
  if (is_prod()) { s.i["st0"] = simsched::ST_STICKY; s.i["sp0"] = 9999; }
}

static Verdict run_C18_longstream(const Scn &s) {
  int T = (int)s.geti("T");
  long len = s.geti("len");
  size_t CH = CHB();
  Bytes P = make_plain(len, (uint64_t)s.geti("pseed"), (int)s.geti("ptype"), CH);
  SimFile fin, fenc;
  fin.data = P;
  OpSpec e = base_op(s, OP_ENC, 0, &fin, &fenc, len);
  OpResult re = run_slot(s, e, 0, "enc", HANG_SKIP);
  if (!re.ret) return skip("enc-false");
  const Bytes &F = fenc.data;
  size_t hs = 48 + 20 * (size_t)T;
  Bytes PP = ref_pkcs7(P);
  if (F.size() != hs + PP.size()) return skip("unexpected-length");
  Verdict v;
  v.case_hash = cfg_hash(s);
  v.nontrivial = true;
  v.trace_hash = fnv1a(re.sr.trace_hash, F.data(), F.size());
  g_stats.add("probe.long_stream_runs", 1);
  size_t nchunks = (PP.size() + CH - 1) / CH;
  for (int st = 0; st < T; st++) {
    std::set<std::string> seen;
    size_t blocks = 0;
    for (size_t j = (size_t)st; j < nchunks; j += (size_t)T)
      for (size_t o = j * CH; o + 16 <= std::min(PP.size(), (j + 1) * CH); o += 16) {
        std::string ks(16, 0);
        for (int q = 0; q < 16; q++) ks[q] = (char)(F[hs + o + q] ^ PP[o + q]);
        blocks++;
        if (!seen.insert(ks).second) {
          Verdict x = viol("keystream-block-reused-within-stream", "stream " + std::to_string(st) + " (" + (s.geti("cm") == 2 ? "CTR" : "OFB") + "): the keystream block of stream block " + std::to_string(blocks - 1) + " was already used earlier in the same stream");
          x.case_hash = v.case_hash; x.nontrivial = true; x.trace_hash = v.trace_hash;
          return x;
        }
      }
    g_stats.max("probe.max_blocks_in_one_stream", (long)blocks);
  }
  return v;
}

static Verdict run_C18(const Scn &s) {
  if (s.geti("cli")) return run_C18_cli(s);
  if (s.geti("longstream")) return run_C18_longstream(s);
  int T = (int)s.geti("T");
  long len = s.geti("len");
  int cm = (int)s.geti("cm");
  size_t CH = CHB();
  Bytes P = make_plain(len, (uint64_t)s.geti("pseed"), (int)s.geti("ptype"), CH);
  SimFile fin, fenc;
  fin.data = P;
  OpSpec e = base_op(s, OP_ENC, 0, &fin, &fenc, len);
  OpResult re = run_slot(s, e, 0, "enc", HANG_SKIP);
  if (!re.ret) return skip("enc-false");
  const Bytes &F = fenc.data;
  size_t hs = 48 + 20 * (size_t)T;
  Bytes PP = ref_pkcs7(P);
  if (F.size() != hs + PP.size()) return skip("unexpected-length");   // C02's business
  size_t nchunks = (PP.size() + CH - 1) / CH;
  Verdict v;
  v.case_hash = cfg_hash(s);
  v.nontrivial = nchunks >= 2;
  v.trace_hash = fnv1a(re.sr.trace_hash, F.data(), F.size());
  if ((long)nchunks < T) return skip("fewer-chunks-than-streams");
  // header IV slots: pairwise distinct
  for (int a = 0; a < T; a++)
    for (int b = a + 1; b < T; b++)
      if (memcmp(&F[48 + 20 * a], &F[48 + 20 * b], 20) == 0) return viol("header-iv-repeated", "header IV slots " + std::to_string(a) + " and " + std::to_string(b) + " are equal");
  // seed dependence: a second encryption with another seed must give other IV fields
  {
    SimFile fin2, fenc2;
    fin2.data = P;
    OpSpec e2 = base_op(s, OP_ENC, 2, &fin2, &fenc2, len);
    e2.sc = sc_canonical(len, T);
    e2.seedstr = s.getb("seedstr2");
    OpResult r2 = run_slot(s, e2, 2, "enc(seed2)", HANG_SKIP);
    if (r2.ret && fenc2.data.size() >= hs && memcmp(&fenc2.data[48], &F[48], 20 * (size_t)T) == 0)
      return viol("iv-independent-of-seed", "two different seeds produced the same IV fields");
  }
  // recover the starting IV of each stream from its first ciphertext block
  std::vector<Bytes> riv(T, Bytes(16));
  for (int st = 0; st < T; st++) {
    const uint8_t *c0 = &F[hs + (size_t)st * CH];
    const uint8_t *p0 = &PP[(size_t)st * CH];
    uint8_t t[16], d[16];
    if (cm == 1) { // CBC: C0 = E(P0 ^ IV)
      ref_aes_ecb_dec(e.key, c0, d);
      for (int k = 0; k < 16; k++) riv[st][k] = d[k] ^ p0[k];
    } else {       // CTR/CFB/OFB: C0 = P0 ^ E(IV)
      for (int k = 0; k < 16; k++) t[k] = c0[k] ^ p0[k];
      ref_aes_ecb_dec(e.key, t, d);
      memcpy(riv[st].data(), d, 16);
    }
  }
  // The recovery assumes that the body really is T standard cipher streams over the padded plaintext (C02/C03's
  // statement).  Check that assumption with the reference before drawing conclusions about IVs: stream st, started
  // from the recovered IV, must reproduce all of its chunks; otherwise this run says nothing about C18.
  for (int st = 0; st < T; st++) {
    Bytes sp, sc;
    size_t sblocks = 0;
    for (size_t j = (size_t)st; j < nchunks; j += (size_t)T) sblocks += std::min(CH, PP.size() - j * CH) / 16;
    if (sblocks < 2) return skip("stream-shorter-than-two-blocks(IV recovery cannot be validated)");
    for (size_t j = (size_t)st; j < nchunks; j += (size_t)T) {
      size_t off = j * CH, n = std::min(CH, PP.size() - off);
      sp.insert(sp.end(), PP.begin() + off, PP.begin() + off + n);
      sc.insert(sc.end(), F.begin() + hs + off, F.begin() + hs + off + n);
    }
    Bytes dec = ref_decrypt_body(sc, e.key, riv[st].data(), cm, 1, sc.size() + 16);
    if (dec != sp) return skip("body-is-not-a-standard-stream(C02/C03 matter)");
  }
  bool all_slot0 = true;
  for (int st = 0; st < T; st++) if (memcmp(riv[st].data(), &F[48], 16) != 0) all_slot0 = false;
  auto V = [&](const std::string &c, const std::string &d, const std::string &sig) {
    Verdict x = viol(c, d);
    x.sig = sig;
    x.trace_hash = v.trace_hash;
    x.case_hash = v.case_hash;
    x.nontrivial = v.nontrivial;
    return x;
  };
  // each recovered IV must be one of the header's slots (seed dependent through the SHA-1 chain)
  for (int st = 0; st < T; st++) {
    bool found = false;
    for (int a = 0; a < T; a++) if (memcmp(riv[st].data(), &F[48 + 20 * a], 16) == 0) found = true;
    if (!found) return V("iv-not-from-header", "stream " + std::to_string(st) + " started from an IV that is none of the header's IV fields", "");
  }
  for (int a = 0; a < T; a++)
    for (int b = a + 1; b < T; b++)
      if (riv[a] == riv[b])
        return V("streams-share-iv", "cipher streams " + std::to_string(a) + " and " + std::to_string(b) + " were started from the same IV " + hexs(riv[a]) +
                                         (cm == 2 || cm == 4 ? " (keystream reuse: C_i^C_j == P_i^P_j on their first chunks)" : ""),
                 all_slot0 ? "all-streams-start-from-header-iv-slot-0" : "");
  // consequences stated by the property
  if (cm == 2 || cm == 4) {
    for (int a = 0; a < T; a++)
      for (int b = a + 1; b < T; b++) {
        bool same = true;
        for (int k = 0; k < 16; k++)
          if ((F[hs + a * CH + k] ^ F[hs + b * CH + k]) != (PP[a * CH + k] ^ PP[b * CH + k])) same = false;
        if (same) return V("keystream-reuse", "first blocks of streams " + std::to_string(a) + "," + std::to_string(b) + ": C_i^C_j == P_i^P_j", "");
      }
  }
  if (s.geti("ptype") == 2 && nchunks >= 2 && PP.size() >= 2 * CH) {
    if (memcmp(&F[hs], &F[hs + CH], CH) == 0) return V("equal-chunks-equal-ciphertext", "equal plaintext chunks 0 and 1 gave equal ciphertext chunks", "");
  }
  return v;
}

// ---------------------------------------------------------------- registry part 1

extern const PropDef PROPS_PIPELINE[] = {
    {"C01", plan_C01, gen_C01, run_C01},
    {"C02", plan_C02, gen_C02, run_C02},
    {"C03", plan_C03, gen_C03, run_C03},
    {"C04", plan_C04, gen_C04, run_C04},
    {"C14", plan_C14, gen_C14, run_C14},
    {"C18", plan_C18, gen_C18, run_C18},
    {nullptr, nullptr, nullptr, nullptr}};
