// Forced include (-include sim_std.h) for every translation unit that sees the
// repository's headers.  It pulls in every standard header first, declares the
// simulator's replacements inside namespace std and then renames the three
// std:: synchronisation types by macro, so that unmodified repository code
// (std::mutex, std::condition_variable, std::thread, std::unique_lock<std::mutex>, ...)
// binds to the deterministic scheduler.  See DESIGN.md 2.1.
#ifndef WENCRY_SIM_STD_H
#define WENCRY_SIM_STD_H
#ifdef __cplusplus
#include <bits/stdc++.h>
#include <unistd.h>
#include <getopt.h>
#include <sys/stat.h>
#include <sys/types.h>
#include <pthread.h>
#include <time.h>

namespace simsched { struct ThreadRec; }

namespace std {

class sim_mutex {
public:
  sim_mutex() noexcept;
  ~sim_mutex();
  sim_mutex(const sim_mutex &) = delete;
  sim_mutex &operator=(const sim_mutex &) = delete;
  void lock();
  bool try_lock();
  void unlock();
  typedef void *native_handle_type;
  native_handle_type native_handle() { return this; }
  // simulator state (only touched by the thread holding the baton)
  int owner_ = -1;
};

class sim_condition_variable {
public:
  sim_condition_variable() noexcept;
  ~sim_condition_variable();
  sim_condition_variable(const sim_condition_variable &) = delete;
  sim_condition_variable &operator=(const sim_condition_variable &) = delete;
  void notify_one() noexcept;
  void notify_all() noexcept;
  void wait(std::unique_lock<sim_mutex> &lk);
  template <class Pred> void wait(std::unique_lock<sim_mutex> &lk, Pred p) {
    while (!p()) wait(lk);
  }
  // timed waits: whether the time-out fires is the scheduler's decision
  bool wait_timed_(std::unique_lock<sim_mutex> &lk); // true = notified / spurious, false = timed out
  template <class Rep, class Period>
  std::cv_status wait_for(std::unique_lock<sim_mutex> &lk, const std::chrono::duration<Rep, Period> &) {
    return wait_timed_(lk) ? std::cv_status::no_timeout : std::cv_status::timeout;
  }
  template <class Rep, class Period, class Pred>
  bool wait_for(std::unique_lock<sim_mutex> &lk, const std::chrono::duration<Rep, Period> &d, Pred p) {
    while (!p()) if (wait_for(lk, d) == std::cv_status::timeout) return p();
    return true;
  }
  template <class Clock, class Dur>
  std::cv_status wait_until(std::unique_lock<sim_mutex> &lk, const std::chrono::time_point<Clock, Dur> &) {
    return wait_timed_(lk) ? std::cv_status::no_timeout : std::cv_status::timeout;
  }
  template <class Clock, class Dur, class Pred>
  bool wait_until(std::unique_lock<sim_mutex> &lk, const std::chrono::time_point<Clock, Dur> &t, Pred p) {
    while (!p()) if (wait_until(lk, t) == std::cv_status::timeout) return p();
    return true;
  }
};

class sim_thread {
public:
  typedef std::thread::id id;
  sim_thread() noexcept : rec_(nullptr) {}
  template <class F, class... Args,
            class = typename std::enable_if<!std::is_same<typename std::decay<F>::type, sim_thread>::value>::type>
  explicit sim_thread(F &&f, Args &&...args) : rec_(nullptr) {
    start_(std::function<void()>(std::bind(std::forward<F>(f), std::forward<Args>(args)...)));
  }
  sim_thread(const sim_thread &) = delete;
  sim_thread &operator=(const sim_thread &) = delete;
  sim_thread(sim_thread &&o) noexcept : rec_(o.rec_) { o.rec_ = nullptr; }
  sim_thread &operator=(sim_thread &&o) noexcept {
    if (rec_) std::terminate();
    rec_ = o.rec_;
    o.rec_ = nullptr;
    return *this;
  }
  ~sim_thread() { if (rec_) std::terminate(); }
  bool joinable() const noexcept { return rec_ != nullptr; }
  void join();
  void detach();
  id get_id() const noexcept;
  void swap(sim_thread &o) noexcept { std::swap(rec_, o.rec_); }
  static unsigned hardware_concurrency() noexcept { return 16; }
private:
  void start_(std::function<void()> fn);
  simsched::ThreadRec *rec_;
};

// std::atomic<T>: the real atomic does the memory operation; the simulator is told about it so that (a) the
// happens-before monitor knows the synchronisation it provides (every operation is treated as acquire+release, i.e. at
// least as strong as what was asked for: never a false "unordered" report) and (b) it is a scheduling point.
void sim_atomic_event(const void *addr, int kind);   // kind: 0 load, 1 store, 2 read-modify-write; called BEFORE the operation
void sim_atomic_after(const void *addr, int kind);   // called AFTER it

template <class T> class sim_atomic {
  std::atomic<T> v_;
public:
  sim_atomic() noexcept = default;
  constexpr sim_atomic(T d) noexcept : v_(d) {}
  sim_atomic(const sim_atomic &) = delete;
  sim_atomic &operator=(const sim_atomic &) = delete;
  T load(std::memory_order = std::memory_order_seq_cst) const noexcept { sim_atomic_event(this, 0); T r = v_.load(); sim_atomic_after(this, 0); return r; }
  void store(T d, std::memory_order = std::memory_order_seq_cst) noexcept { sim_atomic_event(this, 1); v_.store(d); sim_atomic_after(this, 1); }
  T exchange(T d, std::memory_order = std::memory_order_seq_cst) noexcept { sim_atomic_event(this, 2); T r = v_.exchange(d); sim_atomic_after(this, 2); return r; }
  bool compare_exchange_strong(T &e, T d, std::memory_order = std::memory_order_seq_cst, std::memory_order = std::memory_order_seq_cst) noexcept { sim_atomic_event(this, 2); bool r = v_.compare_exchange_strong(e, d); sim_atomic_after(this, 2); return r; }
  bool compare_exchange_weak(T &e, T d, std::memory_order = std::memory_order_seq_cst, std::memory_order = std::memory_order_seq_cst) noexcept { sim_atomic_event(this, 2); bool r = v_.compare_exchange_strong(e, d); sim_atomic_after(this, 2); return r; }
  template <class U = T> U fetch_add(U d, std::memory_order = std::memory_order_seq_cst) noexcept { sim_atomic_event(this, 2); U r = v_.fetch_add(d); sim_atomic_after(this, 2); return r; }
  template <class U = T> U fetch_sub(U d, std::memory_order = std::memory_order_seq_cst) noexcept { sim_atomic_event(this, 2); U r = v_.fetch_sub(d); sim_atomic_after(this, 2); return r; }
  template <class U = T> U fetch_or(U d, std::memory_order = std::memory_order_seq_cst) noexcept { sim_atomic_event(this, 2); U r = v_.fetch_or(d); sim_atomic_after(this, 2); return r; }
  template <class U = T> U fetch_and(U d, std::memory_order = std::memory_order_seq_cst) noexcept { sim_atomic_event(this, 2); U r = v_.fetch_and(d); sim_atomic_after(this, 2); return r; }
  operator T() const noexcept { return load(); }
  T operator=(T d) noexcept { store(d); return d; }
  template <class U = T> U operator++() noexcept { return fetch_add(U(1)) + U(1); }
  template <class U = T> U operator++(int) noexcept { return fetch_add(U(1)); }
  template <class U = T> U operator--() noexcept { return fetch_sub(U(1)) - U(1); }
  template <class U = T> U operator--(int) noexcept { return fetch_sub(U(1)); }
  template <class U = T> U operator+=(U d) noexcept { return fetch_add(d) + d; }
  template <class U = T> U operator-=(U d) noexcept { return fetch_sub(d) - d; }
  bool is_lock_free() const noexcept { return v_.is_lock_free(); }
};

} // namespace std

#define mutex sim_mutex
#define atomic sim_atomic
#define condition_variable sim_condition_variable
#define thread sim_thread
#endif // __cplusplus
#endif
