// Forced include (-include sim_std.h) for every translation unit that sees the
// repository's headers.  It pulls in every standard header first, declares the
// simulator's replacements inside namespace std and then renames the three
// std:: synchronisation types by macro, so that unmodified repository code
// (std::mutex, std::condition_variable, std::thread, std::unique_lock<std::mutex>, ...)
// binds to the deterministic scheduler.  See DESIGN.md 2.1.
#ifndef WENCRY_SIM_STD_H
#define WENCRY_SIM_STD_H
#ifdef __cplusplus
#include <bits/stdc++.h>
#include <unistd.h>
#include <getopt.h>
#include <sys/stat.h>
#include <sys/types.h>
#include <pthread.h>
#include <time.h>

namespace simsched { struct ThreadRec; int current_tid(); }

namespace std {

class sim_mutex {
public:
  constexpr sim_mutex() noexcept {}
  ~sim_mutex();
  sim_mutex(const sim_mutex &) = delete;
  sim_mutex &operator=(const sim_mutex &) = delete;
  void lock();
  bool try_lock();
  void unlock();
  typedef void *native_handle_type;
  native_handle_type native_handle() { return this; }
  // simulator state (only touched by the thread holding the baton)
  int owner_ = -1;
};

class sim_condition_variable {
public:
  sim_condition_variable() noexcept;
  ~sim_condition_variable();
  sim_condition_variable(const sim_condition_variable &) = delete;
  sim_condition_variable &operator=(const sim_condition_variable &) = delete;
  void notify_one() noexcept;
  void notify_all() noexcept;
  void wait(std::unique_lock<sim_mutex> &lk);
  template <class Pred> void wait(std::unique_lock<sim_mutex> &lk, Pred p) {
    while (!p()) wait(lk);
  }
  // timed waits: whether the time-out fires is the scheduler's decision
  bool wait_timed_(std::unique_lock<sim_mutex> &lk); // true = notified / spurious, false = timed out
  template <class Rep, class Period>
  std::cv_status wait_for(std::unique_lock<sim_mutex> &lk, const std::chrono::duration<Rep, Period> &) {
    return wait_timed_(lk) ? std::cv_status::no_timeout : std::cv_status::timeout;
  }
  template <class Rep, class Period, class Pred>
  bool wait_for(std::unique_lock<sim_mutex> &lk, const std::chrono::duration<Rep, Period> &d, Pred p) {
    while (!p()) if (wait_for(lk, d) == std::cv_status::timeout) return p();
    return true;
  }
  template <class Clock, class Dur>
  std::cv_status wait_until(std::unique_lock<sim_mutex> &lk, const std::chrono::time_point<Clock, Dur> &) {
    return wait_timed_(lk) ? std::cv_status::no_timeout : std::cv_status::timeout;
  }
  template <class Clock, class Dur, class Pred>
  bool wait_until(std::unique_lock<sim_mutex> &lk, const std::chrono::time_point<Clock, Dur> &t, Pred p) {
    while (!p()) if (wait_until(lk, t) == std::cv_status::timeout) return p();
    return true;
  }
};

class sim_thread {
public:
  typedef std::thread::id id;
  sim_thread() noexcept : rec_(nullptr) {}
  template <class F, class... Args,
            class = typename std::enable_if<!std::is_same<typename std::decay<F>::type, sim_thread>::value>::type>
  explicit sim_thread(F &&f, Args &&...args) : rec_(nullptr) {
    start_(std::function<void()>(std::bind(std::forward<F>(f), std::forward<Args>(args)...)));
  }
  sim_thread(const sim_thread &) = delete;
  sim_thread &operator=(const sim_thread &) = delete;
  sim_thread(sim_thread &&o) noexcept : rec_(o.rec_) { o.rec_ = nullptr; }
  sim_thread &operator=(sim_thread &&o) noexcept {
    if (rec_) std::terminate();
    rec_ = o.rec_;
    o.rec_ = nullptr;
    return *this;
  }
  ~sim_thread() { if (rec_) std::terminate(); }
  bool joinable() const noexcept { return rec_ != nullptr; }
  void join();
  void detach();
  id get_id() const noexcept;
  void swap(sim_thread &o) noexcept { std::swap(rec_, o.rec_); }
  typedef pthread_t native_handle_type;
  native_handle_type native_handle();
  static unsigned hardware_concurrency() noexcept { return 16; }
private:
  void start_(std::function<void()> fn);
  simsched::ThreadRec *rec_;
};

// std::atomic<T>: the real atomic does the memory operation; the simulator is told about it so that (a) the
// happens-before monitor knows the synchronisation it provides (every operation is treated as acquire+release, i.e. at
// least as strong as what was asked for: never a false "unordered" report) and (b) it is a scheduling point.
void sim_atomic_event(const void *addr, int kind);   // kind: 0 load, 1 store, 2 read-modify-write; called BEFORE the operation
void sim_atomic_after(const void *addr, int kind);   // called AFTER it

template <class T> class sim_atomic {
  std::atomic<T> v_;
public:
  sim_atomic() noexcept = default;
  constexpr sim_atomic(T d) noexcept : v_(d) {}
  sim_atomic(const sim_atomic &) = delete;
  sim_atomic &operator=(const sim_atomic &) = delete;
  T load(std::memory_order = std::memory_order_seq_cst) const noexcept { sim_atomic_event(this, 0); T r = v_.load(); sim_atomic_after(this, 0); return r; }
  void store(T d, std::memory_order = std::memory_order_seq_cst) noexcept { sim_atomic_event(this, 1); v_.store(d); sim_atomic_after(this, 1); }
  T exchange(T d, std::memory_order = std::memory_order_seq_cst) noexcept { sim_atomic_event(this, 2); T r = v_.exchange(d); sim_atomic_after(this, 2); return r; }
  bool compare_exchange_strong(T &e, T d, std::memory_order = std::memory_order_seq_cst, std::memory_order = std::memory_order_seq_cst) noexcept { sim_atomic_event(this, 2); bool r = v_.compare_exchange_strong(e, d); sim_atomic_after(this, 2); return r; }
  bool compare_exchange_weak(T &e, T d, std::memory_order = std::memory_order_seq_cst, std::memory_order = std::memory_order_seq_cst) noexcept { sim_atomic_event(this, 2); bool r = v_.compare_exchange_strong(e, d); sim_atomic_after(this, 2); return r; }
  template <class D> T fetch_add(D d, std::memory_order = std::memory_order_seq_cst) noexcept { sim_atomic_event(this, 2); T r = v_.fetch_add(d); sim_atomic_after(this, 2); return r; }
  template <class D> T fetch_sub(D d, std::memory_order = std::memory_order_seq_cst) noexcept { sim_atomic_event(this, 2); T r = v_.fetch_sub(d); sim_atomic_after(this, 2); return r; }
  template <class D> T fetch_or(D d, std::memory_order = std::memory_order_seq_cst) noexcept { sim_atomic_event(this, 2); T r = v_.fetch_or(d); sim_atomic_after(this, 2); return r; }
  template <class D> T fetch_and(D d, std::memory_order = std::memory_order_seq_cst) noexcept { sim_atomic_event(this, 2); T r = v_.fetch_and(d); sim_atomic_after(this, 2); return r; }
  template <class D> T fetch_xor(D d, std::memory_order = std::memory_order_seq_cst) noexcept { sim_atomic_event(this, 2); T r = v_.fetch_xor(d); sim_atomic_after(this, 2); return r; }
  operator T() const noexcept { return load(); }
  T operator=(T d) noexcept { store(d); return d; }
  template <class U = T> U operator++() noexcept { return fetch_add(1) + 1; }
  template <class U = T> U operator++(int) noexcept { return fetch_add(1); }
  template <class U = T> U operator--() noexcept { return fetch_sub(1) - 1; }
  template <class U = T> U operator--(int) noexcept { return fetch_sub(1); }
  template <class D> T operator+=(D d) noexcept { return fetch_add(d) + d; }
  template <class D> T operator-=(D d) noexcept { return fetch_sub(d) - d; }
  template <class D> T operator|=(D d) noexcept { return fetch_or(d) | d; }
  template <class D> T operator&=(D d) noexcept { return fetch_and(d) & d; }
  template <class D> T operator^=(D d) noexcept { return fetch_xor(d) ^ d; }
  static constexpr bool is_always_lock_free = std::atomic<T>::is_always_lock_free;
  bool is_lock_free() const noexcept { return v_.is_lock_free(); }
};

class sim_atomic_flag {
  sim_atomic<bool> f_;
public:
  constexpr sim_atomic_flag(bool v = false) noexcept : f_(v) {}   // (also what ATOMIC_FLAG_INIT, i.e. { 0 }, initialises)
  sim_atomic_flag(const sim_atomic_flag &) = delete;
  sim_atomic_flag &operator=(const sim_atomic_flag &) = delete;
  bool test_and_set(std::memory_order = std::memory_order_seq_cst) noexcept { return f_.exchange(true); }
  void clear(std::memory_order = std::memory_order_seq_cst) noexcept { f_.store(false); }
  bool test(std::memory_order = std::memory_order_seq_cst) const noexcept { return f_.load(); }
};
// the free-function interface
template <class T> T atomic_load(const sim_atomic<T> *a) noexcept { return a->load(); }
template <class T> T atomic_load_explicit(const sim_atomic<T> *a, std::memory_order) noexcept { return a->load(); }
template <class T> void atomic_store(sim_atomic<T> *a, typename std::common_type<T>::type v) noexcept { a->store(v); }
template <class T> void atomic_store_explicit(sim_atomic<T> *a, typename std::common_type<T>::type v, std::memory_order) noexcept { a->store(v); }
template <class T> T atomic_exchange(sim_atomic<T> *a, typename std::common_type<T>::type v) noexcept { return a->exchange(v); }
template <class T> T atomic_exchange_explicit(sim_atomic<T> *a, typename std::common_type<T>::type v, std::memory_order) noexcept { return a->exchange(v); }
template <class T> bool atomic_compare_exchange_strong(sim_atomic<T> *a, typename std::common_type<T>::type *e, typename std::common_type<T>::type d) noexcept { return a->compare_exchange_strong(*e, d); }
template <class T> bool atomic_compare_exchange_weak(sim_atomic<T> *a, typename std::common_type<T>::type *e, typename std::common_type<T>::type d) noexcept { return a->compare_exchange_strong(*e, d); }
template <class T> bool atomic_compare_exchange_strong_explicit(sim_atomic<T> *a, typename std::common_type<T>::type *e, typename std::common_type<T>::type d, std::memory_order, std::memory_order) noexcept { return a->compare_exchange_strong(*e, d); }
template <class T> bool atomic_compare_exchange_weak_explicit(sim_atomic<T> *a, typename std::common_type<T>::type *e, typename std::common_type<T>::type d, std::memory_order, std::memory_order) noexcept { return a->compare_exchange_strong(*e, d); }
template <class T, class D> T atomic_fetch_add(sim_atomic<T> *a, D d) noexcept { return a->fetch_add(d); }
template <class T, class D> T atomic_fetch_sub(sim_atomic<T> *a, D d) noexcept { return a->fetch_sub(d); }
template <class T, class D> T atomic_fetch_or(sim_atomic<T> *a, D d) noexcept { return a->fetch_or(d); }
template <class T, class D> T atomic_fetch_and(sim_atomic<T> *a, D d) noexcept { return a->fetch_and(d); }
template <class T, class D> T atomic_fetch_xor(sim_atomic<T> *a, D d) noexcept { return a->fetch_xor(d); }
template <class T, class D> T atomic_fetch_add_explicit(sim_atomic<T> *a, D d, std::memory_order) noexcept { return a->fetch_add(d); }
template <class T, class D> T atomic_fetch_sub_explicit(sim_atomic<T> *a, D d, std::memory_order) noexcept { return a->fetch_sub(d); }
inline bool atomic_flag_test_and_set(sim_atomic_flag *f) noexcept { return f->test_and_set(); }
inline bool atomic_flag_test_and_set_explicit(sim_atomic_flag *f, std::memory_order) noexcept { return f->test_and_set(); }
inline void atomic_flag_clear(sim_atomic_flag *f) noexcept { f->clear(); }
inline void atomic_flag_clear_explicit(sim_atomic_flag *f, std::memory_order) noexcept { f->clear(); }

// ---- the rest of the standard blocking vocabulary, composed from sim_mutex + sim_condition_variable so that code which
// uses it (the repository does not; a refactoring might) still blocks inside the simulator and never for real ----
void sim_yield_event();   // this_thread::yield / sleep_*: scheduling point that prefers another runnable thread

class sim_recursive_mutex {
  sim_mutex m_;
  int owner_ = -1, depth_ = 0;
public:
  sim_recursive_mutex() = default;
  sim_recursive_mutex(const sim_recursive_mutex &) = delete;
  sim_recursive_mutex &operator=(const sim_recursive_mutex &) = delete;
  void lock() { int me = simsched::current_tid(); if (depth_ > 0 && owner_ == me) { depth_++; return; } m_.lock(); owner_ = me; depth_ = 1; }
  bool try_lock() { int me = simsched::current_tid(); if (depth_ > 0 && owner_ == me) { depth_++; return true; } if (!m_.try_lock()) return false; owner_ = me; depth_ = 1; return true; }
  void unlock() { if (--depth_ == 0) { owner_ = -1; m_.unlock(); } }
};

// mutexes with timed and/or shared acquisition: a monitor over (guard mutex, condition variable); whether a timed
// acquisition gives up is the scheduler's decision, like every time-out
class sim_shared_timed_mutex {
  sim_mutex g_;
  sim_condition_variable cv_;
  bool writer_ = false;
  int readers_ = 0;
public:
  sim_shared_timed_mutex() = default;
  sim_shared_timed_mutex(const sim_shared_timed_mutex &) = delete;
  sim_shared_timed_mutex &operator=(const sim_shared_timed_mutex &) = delete;
  void lock() { std::unique_lock<sim_mutex> l(g_); while (writer_ || readers_ > 0) cv_.wait(l); writer_ = true; }
  bool try_lock() { std::unique_lock<sim_mutex> l(g_); if (writer_ || readers_ > 0) return false; writer_ = true; return true; }
  bool try_lock_timed_() { std::unique_lock<sim_mutex> l(g_); while (writer_ || readers_ > 0) if (!cv_.wait_timed_(l) && (writer_ || readers_ > 0)) return false; writer_ = true; return true; }
  template <class R, class P> bool try_lock_for(const std::chrono::duration<R, P> &) { return try_lock_timed_(); }
  template <class C, class D> bool try_lock_until(const std::chrono::time_point<C, D> &) { return try_lock_timed_(); }
  void unlock() { { std::unique_lock<sim_mutex> l(g_); writer_ = false; } cv_.notify_all(); }
  void lock_shared() { std::unique_lock<sim_mutex> l(g_); while (writer_) cv_.wait(l); readers_++; }
  bool try_lock_shared() { std::unique_lock<sim_mutex> l(g_); if (writer_) return false; readers_++; return true; }
  bool try_lock_shared_timed_() { std::unique_lock<sim_mutex> l(g_); while (writer_) if (!cv_.wait_timed_(l) && writer_) return false; readers_++; return true; }
  template <class R, class P> bool try_lock_shared_for(const std::chrono::duration<R, P> &) { return try_lock_shared_timed_(); }
  template <class C, class D> bool try_lock_shared_until(const std::chrono::time_point<C, D> &) { return try_lock_shared_timed_(); }
  void unlock_shared() { bool last; { std::unique_lock<sim_mutex> l(g_); last = --readers_ == 0; } if (last) cv_.notify_all(); }
};
typedef sim_shared_timed_mutex sim_shared_mutex;
typedef sim_shared_timed_mutex sim_timed_mutex;

class sim_recursive_timed_mutex {
  sim_timed_mutex m_;
  int owner_ = -1, depth_ = 0;
  bool mine_() const { return depth_ > 0 && owner_ == simsched::current_tid(); }
  bool got_(bool ok) { if (ok) { owner_ = simsched::current_tid(); depth_ = 1; } return ok; }
public:
  sim_recursive_timed_mutex() = default;
  sim_recursive_timed_mutex(const sim_recursive_timed_mutex &) = delete;
  sim_recursive_timed_mutex &operator=(const sim_recursive_timed_mutex &) = delete;
  void lock() { if (mine_()) { depth_++; return; } m_.lock(); got_(true); }
  bool try_lock() { if (mine_()) { depth_++; return true; } return got_(m_.try_lock()); }
  template <class R, class P> bool try_lock_for(const std::chrono::duration<R, P> &) { if (mine_()) { depth_++; return true; } return got_(m_.try_lock_timed_()); }
  template <class C, class D> bool try_lock_until(const std::chrono::time_point<C, D> &) { if (mine_()) { depth_++; return true; } return got_(m_.try_lock_timed_()); }
  void unlock() { if (--depth_ == 0) { owner_ = -1; m_.unlock(); } }
};

class sim_condition_variable_any {
  sim_mutex g_;
  sim_condition_variable cv_;
  template <class L> struct relock_ { L &l; ~relock_() { l.lock(); } };
public:
  sim_condition_variable_any() = default;
  sim_condition_variable_any(const sim_condition_variable_any &) = delete;
  sim_condition_variable_any &operator=(const sim_condition_variable_any &) = delete;
  void notify_one() noexcept { { std::unique_lock<sim_mutex> g(g_); } cv_.notify_one(); }
  void notify_all() noexcept { { std::unique_lock<sim_mutex> g(g_); } cv_.notify_all(); }
  template <class L> void wait(L &l) { std::unique_lock<sim_mutex> g(g_); l.unlock(); relock_<L> r{l}; cv_.wait(g); g.unlock(); }
  template <class L, class Pred> void wait(L &l, Pred p) { while (!p()) wait(l); }
  template <class L> bool wait_timed_(L &l) { std::unique_lock<sim_mutex> g(g_); l.unlock(); relock_<L> r{l}; bool ok = cv_.wait_timed_(g); g.unlock(); return ok; }
  template <class L, class R, class P> std::cv_status wait_for(L &l, const std::chrono::duration<R, P> &) { return wait_timed_(l) ? std::cv_status::no_timeout : std::cv_status::timeout; }
  template <class L, class R, class P, class Pred> bool wait_for(L &l, const std::chrono::duration<R, P> &d, Pred p) { while (!p()) if (wait_for(l, d) == std::cv_status::timeout) return p(); return true; }
  template <class L, class C, class D> std::cv_status wait_until(L &l, const std::chrono::time_point<C, D> &) { return wait_timed_(l) ? std::cv_status::no_timeout : std::cv_status::timeout; }
  template <class L, class C, class D, class Pred> bool wait_until(L &l, const std::chrono::time_point<C, D> &t, Pred p) { while (!p()) if (wait_until(l, t) == std::cv_status::timeout) return p(); return true; }
};

struct sim_once_flag {
  constexpr sim_once_flag() noexcept {}
  sim_once_flag(const sim_once_flag &) = delete;
  sim_once_flag &operator=(const sim_once_flag &) = delete;
  sim_mutex m_;
  bool done_ = false;
};
template <class F, class... A> void sim_call_once(sim_once_flag &fl, F &&f, A &&...a) {
  std::unique_lock<sim_mutex> l(fl.m_);   // held during the active execution: passive callers block in the simulator
  if (fl.done_) return;
  std::invoke(std::forward<F>(f), std::forward<A>(a)...);   // an exception leaves the flag unset, as the standard says
  fl.done_ = true;
}

namespace this_thread {
inline void sim_yield() noexcept { sim_yield_event(); }
template <class R, class P> void sim_sleep_for(const std::chrono::duration<R, P> &) { sim_yield_event(); }
template <class C, class D> void sim_sleep_until(const std::chrono::time_point<C, D> &) { sim_yield_event(); }
} // namespace this_thread

} // namespace std

#define mutex sim_mutex
#define recursive_mutex sim_recursive_mutex
#define timed_mutex sim_timed_mutex
#define recursive_timed_mutex sim_recursive_timed_mutex
#define shared_mutex sim_shared_mutex
#define shared_timed_mutex sim_shared_timed_mutex
#define condition_variable_any sim_condition_variable_any
#define once_flag sim_once_flag
#define call_once sim_call_once
#define yield sim_yield
#define sleep_for sim_sleep_for
#define sleep_until sim_sleep_until
#define atomic sim_atomic
#define atomic_flag sim_atomic_flag
#define atomic_bool sim_atomic<bool>
#define atomic_char sim_atomic<char>
#define atomic_schar sim_atomic<signed char>
#define atomic_uchar sim_atomic<unsigned char>
#define atomic_short sim_atomic<short>
#define atomic_ushort sim_atomic<unsigned short>
#define atomic_int sim_atomic<int>
#define atomic_uint sim_atomic<unsigned int>
#define atomic_long sim_atomic<long>
#define atomic_ulong sim_atomic<unsigned long>
#define atomic_llong sim_atomic<long long>
#define atomic_ullong sim_atomic<unsigned long long>
#define atomic_int8_t sim_atomic<int8_t>
#define atomic_uint8_t sim_atomic<uint8_t>
#define atomic_int16_t sim_atomic<int16_t>
#define atomic_uint16_t sim_atomic<uint16_t>
#define atomic_int32_t sim_atomic<int32_t>
#define atomic_uint32_t sim_atomic<uint32_t>
#define atomic_int64_t sim_atomic<int64_t>
#define atomic_uint64_t sim_atomic<uint64_t>
#define atomic_size_t sim_atomic<size_t>
#define atomic_ptrdiff_t sim_atomic<ptrdiff_t>
#define atomic_intptr_t sim_atomic<intptr_t>
#define atomic_uintptr_t sim_atomic<uintptr_t>
#define condition_variable sim_condition_variable
#define thread sim_thread
#endif // __cplusplus
#endif
