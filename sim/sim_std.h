// Forced include (-include sim_std.h) for every translation unit that sees the
// repository's headers.  It pulls in every standard header first, declares the
// simulator's replacements inside namespace std and then renames the three
// std:: synchronisation types by macro, so that unmodified repository code
// (std::mutex, std::condition_variable, std::thread, std::unique_lock<std::mutex>, ...)
// binds to the deterministic scheduler.  See DESIGN.md 2.1.
#ifndef WENCRY_SIM_STD_H
#define WENCRY_SIM_STD_H
#ifdef __cplusplus
#include <bits/stdc++.h>
#include <unistd.h>
#include <getopt.h>
#include <sys/stat.h>
#include <sys/types.h>
#include <pthread.h>
#include <time.h>

namespace simsched { struct ThreadRec; int current_tid(); }

namespace std {

class sim_mutex {
public:
  constexpr sim_mutex() noexcept {}
  ~sim_mutex();
  sim_mutex(const sim_mutex &) = delete;
  sim_mutex &operator=(const sim_mutex &) = delete;
  void lock();
  bool try_lock();
  void unlock();
  typedef void *native_handle_type;
  native_handle_type native_handle() { return this; }
  // simulator state (only touched by the thread holding the baton)
  int owner_ = -1;
};

class sim_condition_variable {
public:
  sim_condition_variable() noexcept;
  ~sim_condition_variable();
  sim_condition_variable(const sim_condition_variable &) = delete;
  sim_condition_variable &operator=(const sim_condition_variable &) = delete;
  void notify_one() noexcept;
  void notify_all() noexcept;
  void wait(std::unique_lock<sim_mutex> &lk);
  template <class Pred> void wait(std::unique_lock<sim_mutex> &lk, Pred p) {
    while (!p()) wait(lk);
  }
  // timed waits: whether the time-out fires is the scheduler's decision
  bool wait_timed_(std::unique_lock<sim_mutex> &lk); // true = notified / spurious, false = timed out
  template <class Rep, class Period>
  std::cv_status wait_for(std::unique_lock<sim_mutex> &lk, const std::chrono::duration<Rep, Period> &) {
    return wait_timed_(lk) ? std::cv_status::no_timeout : std::cv_status::timeout;
  }
  template <class Rep, class Period, class Pred>
  bool wait_for(std::unique_lock<sim_mutex> &lk, const std::chrono::duration<Rep, Period> &d, Pred p) {
    while (!p()) if (wait_for(lk, d) == std::cv_status::timeout) return p();
    return true;
  }
  template <class Clock, class Dur>
  std::cv_status wait_until(std::unique_lock<sim_mutex> &lk, const std::chrono::time_point<Clock, Dur> &) {
    return wait_timed_(lk) ? std::cv_status::no_timeout : std::cv_status::timeout;
  }
  template <class Clock, class Dur, class Pred>
  bool wait_until(std::unique_lock<sim_mutex> &lk, const std::chrono::time_point<Clock, Dur> &t, Pred p) {
    while (!p()) if (wait_until(lk, t) == std::cv_status::timeout) return p();
    return true;
  }
};

class sim_thread {
public:
  typedef std::thread::id id;
  sim_thread() noexcept : rec_(nullptr) {}
  template <class F, class... Args,
            class = typename std::enable_if<!std::is_same<typename std::decay<F>::type, sim_thread>::value>::type>
  explicit sim_thread(F &&f, Args &&...args) : rec_(nullptr) {
    // decay-copy callable and arguments, invoke them as rvalues on the new thread (move-only callables included)
    auto pack = std::make_shared<std::tuple<typename std::decay<F>::type, typename std::decay<Args>::type...>>(std::forward<F>(f), std::forward<Args>(args)...);
    start_(std::function<void()>([pack] { std::apply([](auto &&fn, auto &&...a) { std::invoke(std::move(fn), std::move(a)...); }, *pack); }));
  }
  sim_thread(const sim_thread &) = delete;
  sim_thread &operator=(const sim_thread &) = delete;
  sim_thread(sim_thread &&o) noexcept : rec_(o.rec_) { o.rec_ = nullptr; }
  sim_thread &operator=(sim_thread &&o) noexcept {
    if (rec_) std::terminate();
    rec_ = o.rec_;
    o.rec_ = nullptr;
    return *this;
  }
  ~sim_thread() { if (rec_) std::terminate(); }
  bool joinable() const noexcept { return rec_ != nullptr; }
  void join();
  void detach();
  id get_id() const noexcept;
  void swap(sim_thread &o) noexcept { std::swap(rec_, o.rec_); }
  typedef pthread_t native_handle_type;
  native_handle_type native_handle();
  static unsigned hardware_concurrency() noexcept { return 16; }
private:
  void start_(std::function<void()> fn);
  simsched::ThreadRec *rec_;
};

// std::atomic<T>: the real atomic does the memory operation; the simulator is told about it so that (a) the
// happens-before monitor knows the synchronisation it provides (every operation is treated as acquire+release, i.e. at
// least as strong as what was asked for: never a false "unordered" report) and (b) it is a scheduling point.
void sim_atomic_event(const void *addr, int kind);   // kind: 0 load, 1 store, 2 read-modify-write; called BEFORE the operation
void sim_atomic_after(const void *addr, int kind);   // called AFTER it

template <class T> class sim_atomic {
  std::atomic<T> v_;
public:
  sim_atomic() noexcept = default;
  constexpr sim_atomic(T d) noexcept : v_(d) {}
  sim_atomic(const sim_atomic &) = delete;
  sim_atomic &operator=(const sim_atomic &) = delete;
  T load(std::memory_order = std::memory_order_seq_cst) const noexcept { sim_atomic_event(this, 0); T r = v_.load(); sim_atomic_after(this, 0); return r; }
  void store(T d, std::memory_order = std::memory_order_seq_cst) noexcept { sim_atomic_event(this, 1); v_.store(d); sim_atomic_after(this, 1); }
  T exchange(T d, std::memory_order = std::memory_order_seq_cst) noexcept { sim_atomic_event(this, 2); T r = v_.exchange(d); sim_atomic_after(this, 2); return r; }
  bool compare_exchange_strong(T &e, T d, std::memory_order = std::memory_order_seq_cst, std::memory_order = std::memory_order_seq_cst) noexcept { sim_atomic_event(this, 2); bool r = v_.compare_exchange_strong(e, d); sim_atomic_after(this, 2); return r; }
  bool compare_exchange_weak(T &e, T d, std::memory_order = std::memory_order_seq_cst, std::memory_order = std::memory_order_seq_cst) noexcept { sim_atomic_event(this, 2); bool r = v_.compare_exchange_strong(e, d); sim_atomic_after(this, 2); return r; }
  template <class D> T fetch_add(D d, std::memory_order = std::memory_order_seq_cst) noexcept { sim_atomic_event(this, 2); T r = v_.fetch_add(d); sim_atomic_after(this, 2); return r; }
  template <class D> T fetch_sub(D d, std::memory_order = std::memory_order_seq_cst) noexcept { sim_atomic_event(this, 2); T r = v_.fetch_sub(d); sim_atomic_after(this, 2); return r; }
  template <class D> T fetch_or(D d, std::memory_order = std::memory_order_seq_cst) noexcept { sim_atomic_event(this, 2); T r = v_.fetch_or(d); sim_atomic_after(this, 2); return r; }
  template <class D> T fetch_and(D d, std::memory_order = std::memory_order_seq_cst) noexcept { sim_atomic_event(this, 2); T r = v_.fetch_and(d); sim_atomic_after(this, 2); return r; }
  template <class D> T fetch_xor(D d, std::memory_order = std::memory_order_seq_cst) noexcept { sim_atomic_event(this, 2); T r = v_.fetch_xor(d); sim_atomic_after(this, 2); return r; }
  operator T() const noexcept { return load(); }
  T operator=(T d) noexcept { store(d); return d; }
  template <class U = T> U operator++() noexcept { return fetch_add(1) + 1; }
  template <class U = T> U operator++(int) noexcept { return fetch_add(1); }
  template <class U = T> U operator--() noexcept { return fetch_sub(1) - 1; }
  template <class U = T> U operator--(int) noexcept { return fetch_sub(1); }
  template <class D> T operator+=(D d) noexcept { return fetch_add(d) + d; }
  template <class D> T operator-=(D d) noexcept { return fetch_sub(d) - d; }
  template <class D> T operator|=(D d) noexcept { return fetch_or(d) | d; }
  template <class D> T operator&=(D d) noexcept { return fetch_and(d) & d; }
  template <class D> T operator^=(D d) noexcept { return fetch_xor(d) ^ d; }
  static constexpr bool is_always_lock_free = std::atomic<T>::is_always_lock_free;
  bool is_lock_free() const noexcept { return v_.is_lock_free(); }
};

class sim_atomic_flag {
  sim_atomic<bool> f_;
public:
  constexpr sim_atomic_flag(bool v = false) noexcept : f_(v) {}   // (also what ATOMIC_FLAG_INIT, i.e. { 0 }, initialises)
  sim_atomic_flag(const sim_atomic_flag &) = delete;
  sim_atomic_flag &operator=(const sim_atomic_flag &) = delete;
  bool test_and_set(std::memory_order = std::memory_order_seq_cst) noexcept { return f_.exchange(true); }
  void clear(std::memory_order = std::memory_order_seq_cst) noexcept { f_.store(false); }
  bool test(std::memory_order = std::memory_order_seq_cst) const noexcept { return f_.load(); }
};
// the free-function interface
template <class T> T atomic_load(const sim_atomic<T> *a) noexcept { return a->load(); }
template <class T> T atomic_load_explicit(const sim_atomic<T> *a, std::memory_order) noexcept { return a->load(); }
template <class T> void atomic_store(sim_atomic<T> *a, typename std::common_type<T>::type v) noexcept { a->store(v); }
template <class T> void atomic_store_explicit(sim_atomic<T> *a, typename std::common_type<T>::type v, std::memory_order) noexcept { a->store(v); }
template <class T> T atomic_exchange(sim_atomic<T> *a, typename std::common_type<T>::type v) noexcept { return a->exchange(v); }
template <class T> T atomic_exchange_explicit(sim_atomic<T> *a, typename std::common_type<T>::type v, std::memory_order) noexcept { return a->exchange(v); }
template <class T> bool atomic_compare_exchange_strong(sim_atomic<T> *a, typename std::common_type<T>::type *e, typename std::common_type<T>::type d) noexcept { return a->compare_exchange_strong(*e, d); }
template <class T> bool atomic_compare_exchange_weak(sim_atomic<T> *a, typename std::common_type<T>::type *e, typename std::common_type<T>::type d) noexcept { return a->compare_exchange_strong(*e, d); }
template <class T> bool atomic_compare_exchange_strong_explicit(sim_atomic<T> *a, typename std::common_type<T>::type *e, typename std::common_type<T>::type d, std::memory_order, std::memory_order) noexcept { return a->compare_exchange_strong(*e, d); }
template <class T> bool atomic_compare_exchange_weak_explicit(sim_atomic<T> *a, typename std::common_type<T>::type *e, typename std::common_type<T>::type d, std::memory_order, std::memory_order) noexcept { return a->compare_exchange_strong(*e, d); }
template <class T, class D> T atomic_fetch_add(sim_atomic<T> *a, D d) noexcept { return a->fetch_add(d); }
template <class T, class D> T atomic_fetch_sub(sim_atomic<T> *a, D d) noexcept { return a->fetch_sub(d); }
template <class T, class D> T atomic_fetch_or(sim_atomic<T> *a, D d) noexcept { return a->fetch_or(d); }
template <class T, class D> T atomic_fetch_and(sim_atomic<T> *a, D d) noexcept { return a->fetch_and(d); }
template <class T, class D> T atomic_fetch_xor(sim_atomic<T> *a, D d) noexcept { return a->fetch_xor(d); }
template <class T, class D> T atomic_fetch_add_explicit(sim_atomic<T> *a, D d, std::memory_order) noexcept { return a->fetch_add(d); }
template <class T, class D> T atomic_fetch_sub_explicit(sim_atomic<T> *a, D d, std::memory_order) noexcept { return a->fetch_sub(d); }
inline bool atomic_flag_test_and_set(sim_atomic_flag *f) noexcept { return f->test_and_set(); }
inline bool atomic_flag_test_and_set_explicit(sim_atomic_flag *f, std::memory_order) noexcept { return f->test_and_set(); }
inline void atomic_flag_clear(sim_atomic_flag *f) noexcept { f->clear(); }
inline void atomic_flag_clear_explicit(sim_atomic_flag *f, std::memory_order) noexcept { f->clear(); }

// ---- the rest of the standard blocking vocabulary, composed from sim_mutex + sim_condition_variable so that code which
// uses it (the repository does not; a refactoring might) still blocks inside the simulator and never for real ----
void sim_yield_event();   // this_thread::yield / sleep_*: scheduling point that prefers another runnable thread

class sim_recursive_mutex {
  sim_mutex m_;
  int owner_ = -1, depth_ = 0;
public:
  sim_recursive_mutex() = default;
  sim_recursive_mutex(const sim_recursive_mutex &) = delete;
  sim_recursive_mutex &operator=(const sim_recursive_mutex &) = delete;
  void lock() { int me = simsched::current_tid(); if (depth_ > 0 && owner_ == me) { depth_++; return; } m_.lock(); owner_ = me; depth_ = 1; }
  bool try_lock() { int me = simsched::current_tid(); if (depth_ > 0 && owner_ == me) { depth_++; return true; } if (!m_.try_lock()) return false; owner_ = me; depth_ = 1; return true; }
  void unlock() { if (--depth_ == 0) { owner_ = -1; m_.unlock(); } }
};

// mutexes with timed and/or shared acquisition: a monitor over (guard mutex, condition variable); whether a timed
// acquisition gives up is the scheduler's decision, like every time-out
class sim_shared_timed_mutex {
  sim_mutex g_;
  sim_condition_variable cv_;
  bool writer_ = false;
  int readers_ = 0;
public:
  sim_shared_timed_mutex() = default;
  sim_shared_timed_mutex(const sim_shared_timed_mutex &) = delete;
  sim_shared_timed_mutex &operator=(const sim_shared_timed_mutex &) = delete;
  void lock() { std::unique_lock<sim_mutex> l(g_); while (writer_ || readers_ > 0) cv_.wait(l); writer_ = true; }
  bool try_lock() { std::unique_lock<sim_mutex> l(g_); if (writer_ || readers_ > 0) return false; writer_ = true; return true; }
  bool try_lock_timed_() { std::unique_lock<sim_mutex> l(g_); while (writer_ || readers_ > 0) if (!cv_.wait_timed_(l) && (writer_ || readers_ > 0)) return false; writer_ = true; return true; }
  template <class R, class P> bool try_lock_for(const std::chrono::duration<R, P> &) { return try_lock_timed_(); }
  template <class C, class D> bool try_lock_until(const std::chrono::time_point<C, D> &) { return try_lock_timed_(); }
  void unlock() { { std::unique_lock<sim_mutex> l(g_); writer_ = false; } cv_.notify_all(); }
  void lock_shared() { std::unique_lock<sim_mutex> l(g_); while (writer_) cv_.wait(l); readers_++; }
  bool try_lock_shared() { std::unique_lock<sim_mutex> l(g_); if (writer_) return false; readers_++; return true; }
  bool try_lock_shared_timed_() { std::unique_lock<sim_mutex> l(g_); while (writer_) if (!cv_.wait_timed_(l) && writer_) return false; readers_++; return true; }
  template <class R, class P> bool try_lock_shared_for(const std::chrono::duration<R, P> &) { return try_lock_shared_timed_(); }
  template <class C, class D> bool try_lock_shared_until(const std::chrono::time_point<C, D> &) { return try_lock_shared_timed_(); }
  void unlock_shared() { bool last; { std::unique_lock<sim_mutex> l(g_); last = --readers_ == 0; } if (last) cv_.notify_all(); }
};
typedef sim_shared_timed_mutex sim_shared_mutex;
typedef sim_shared_timed_mutex sim_timed_mutex;

class sim_recursive_timed_mutex {
  sim_timed_mutex m_;
  int owner_ = -1, depth_ = 0;
  bool mine_() const { return depth_ > 0 && owner_ == simsched::current_tid(); }
  bool got_(bool ok) { if (ok) { owner_ = simsched::current_tid(); depth_ = 1; } return ok; }
public:
  sim_recursive_timed_mutex() = default;
  sim_recursive_timed_mutex(const sim_recursive_timed_mutex &) = delete;
  sim_recursive_timed_mutex &operator=(const sim_recursive_timed_mutex &) = delete;
  void lock() { if (mine_()) { depth_++; return; } m_.lock(); got_(true); }
  bool try_lock() { if (mine_()) { depth_++; return true; } return got_(m_.try_lock()); }
  template <class R, class P> bool try_lock_for(const std::chrono::duration<R, P> &) { if (mine_()) { depth_++; return true; } return got_(m_.try_lock_timed_()); }
  template <class C, class D> bool try_lock_until(const std::chrono::time_point<C, D> &) { if (mine_()) { depth_++; return true; } return got_(m_.try_lock_timed_()); }
  void unlock() { if (--depth_ == 0) { owner_ = -1; m_.unlock(); } }
};

class sim_condition_variable_any {
  sim_mutex g_;
  sim_condition_variable cv_;
  template <class L> struct relock_ { L &l; ~relock_() { l.lock(); } };
public:
  sim_condition_variable_any() = default;
  sim_condition_variable_any(const sim_condition_variable_any &) = delete;
  sim_condition_variable_any &operator=(const sim_condition_variable_any &) = delete;
  void notify_one() noexcept { { std::unique_lock<sim_mutex> g(g_); } cv_.notify_one(); }
  void notify_all() noexcept { { std::unique_lock<sim_mutex> g(g_); } cv_.notify_all(); }
  template <class L> void wait(L &l) { std::unique_lock<sim_mutex> g(g_); l.unlock(); relock_<L> r{l}; cv_.wait(g); g.unlock(); }
  template <class L, class Pred> void wait(L &l, Pred p) { while (!p()) wait(l); }
  template <class L> bool wait_timed_(L &l) { std::unique_lock<sim_mutex> g(g_); l.unlock(); relock_<L> r{l}; bool ok = cv_.wait_timed_(g); g.unlock(); return ok; }
  template <class L, class R, class P> std::cv_status wait_for(L &l, const std::chrono::duration<R, P> &) { return wait_timed_(l) ? std::cv_status::no_timeout : std::cv_status::timeout; }
  template <class L, class R, class P, class Pred> bool wait_for(L &l, const std::chrono::duration<R, P> &d, Pred p) { while (!p()) if (wait_for(l, d) == std::cv_status::timeout) return p(); return true; }
  template <class L, class C, class D> std::cv_status wait_until(L &l, const std::chrono::time_point<C, D> &) { return wait_timed_(l) ? std::cv_status::no_timeout : std::cv_status::timeout; }
  template <class L, class C, class D, class Pred> bool wait_until(L &l, const std::chrono::time_point<C, D> &t, Pred p) { while (!p()) if (wait_until(l, t) == std::cv_status::timeout) return p(); return true; }
};

// futures: shared state = (simulated mutex, simulated condition variable, value); std::async runs its function on a
// simulated thread, which the last future referring to it joins (the standard's blocking destructor)
template <class T> struct sim_fval { std::optional<T> v; template <class U> void set(U &&u) { v.emplace(std::forward<U>(u)); } T take() { return std::move(*v); } const T &ref() const { return *v; } };
template <class T> struct sim_fval<T &> { T *p = nullptr; void set(T &r) { p = &r; } T &take() { return *p; } T &ref() const { return *p; } };
template <> struct sim_fval<void> { void set() {} void take() {} void ref() const {} };
template <class T> struct sim_fstate {
  sim_mutex m;
  sim_condition_variable cv;
  bool ready = false, is_async = false, future_taken = false;
  int handles = 0;                  // futures / shared_futures referring to this state
  std::exception_ptr ex;
  sim_fval<T> val;
  sim_thread th;
  std::function<void()> deferred;
  void publish() { { std::unique_lock<sim_mutex> l(m); ready = true; } cv.notify_all(); }
  void wait() {
    if (deferred) { std::function<void()> d; d.swap(deferred); d(); }
    std::unique_lock<sim_mutex> l(m);
    while (!ready) cv.wait(l);
  }
  std::future_status wait_timed() {
    if (deferred) return std::future_status::deferred;
    std::unique_lock<sim_mutex> l(m);
    while (!ready) if (!cv.wait_timed_(l) && !ready) return std::future_status::timeout;
    return std::future_status::ready;
  }
  void release_handle() { if (--handles == 0 && is_async && th.joinable()) { wait(); th.join(); } }
};
template <class T> class sim_shared_future;
template <class T> class sim_future {
  std::shared_ptr<sim_fstate<T>> s_;
  template <class U> friend class sim_promise;
  template <class U> friend class sim_shared_future;
public:
  sim_future() noexcept {}
  explicit sim_future(std::shared_ptr<sim_fstate<T>> s) : s_(std::move(s)) { if (s_) s_->handles++; }
  sim_future(sim_future &&o) noexcept : s_(std::move(o.s_)) { o.s_.reset(); }
  sim_future(const sim_future &) = delete;
  sim_future &operator=(const sim_future &) = delete;
  sim_future &operator=(sim_future &&o) noexcept { if (this != &o) { drop_(); s_ = std::move(o.s_); o.s_.reset(); } return *this; }
  ~sim_future() { drop_(); }
  bool valid() const noexcept { return (bool)s_; }
  void wait() const { s_->wait(); }
  template <class R, class P> std::future_status wait_for(const std::chrono::duration<R, P> &) const { return s_->wait_timed(); }
  template <class C, class D> std::future_status wait_until(const std::chrono::time_point<C, D> &) const { return s_->wait_timed(); }
  T get() {
    std::shared_ptr<sim_fstate<T>> s = s_;
    s->wait();
    struct drop_later { sim_future *f; ~drop_later() { f->drop_(); } } d{this};
    if (s->ex) std::rethrow_exception(s->ex);
    return s->val.take();
  }
  sim_shared_future<T> share() noexcept;
private:
  void drop_() { if (s_) { std::shared_ptr<sim_fstate<T>> s; s.swap(s_); s->release_handle(); } }
};
template <class T> class sim_shared_future {
  std::shared_ptr<sim_fstate<T>> s_;
public:
  sim_shared_future() noexcept {}
  sim_shared_future(sim_future<T> &&f) noexcept : s_(std::move(f.s_)) { f.s_.reset(); }
  sim_shared_future(const sim_shared_future &o) : s_(o.s_) { if (s_) s_->handles++; }
  sim_shared_future(sim_shared_future &&o) noexcept : s_(std::move(o.s_)) { o.s_.reset(); }
  sim_shared_future &operator=(const sim_shared_future &o) { if (this != &o) { drop_(); s_ = o.s_; if (s_) s_->handles++; } return *this; }
  sim_shared_future &operator=(sim_shared_future &&o) noexcept { if (this != &o) { drop_(); s_ = std::move(o.s_); o.s_.reset(); } return *this; }
  ~sim_shared_future() { drop_(); }
  bool valid() const noexcept { return (bool)s_; }
  void wait() const { s_->wait(); }
  template <class R, class P> std::future_status wait_for(const std::chrono::duration<R, P> &) const { return s_->wait_timed(); }
  template <class C, class D> std::future_status wait_until(const std::chrono::time_point<C, D> &) const { return s_->wait_timed(); }
  decltype(auto) get() const { s_->wait(); if (s_->ex) std::rethrow_exception(s_->ex); return s_->val.ref(); }
private:
  void drop_() { if (s_) { std::shared_ptr<sim_fstate<T>> s; s.swap(s_); s->release_handle(); } }
};
template <class T> sim_shared_future<T> sim_future<T>::share() noexcept { return sim_shared_future<T>(std::move(*this)); }
template <class T> class sim_promise {
  std::shared_ptr<sim_fstate<T>> s_;
public:
  sim_promise() : s_(std::make_shared<sim_fstate<T>>()) {}
  sim_promise(sim_promise &&o) noexcept = default;
  sim_promise &operator=(sim_promise &&o) noexcept = default;
  sim_promise(const sim_promise &) = delete;
  sim_promise &operator=(const sim_promise &) = delete;
  ~sim_promise() { if (s_ && !s_->ready && s_->future_taken) { s_->ex = std::make_exception_ptr(std::future_error(std::future_errc::broken_promise)); s_->publish(); } }
  sim_future<T> get_future() { if (s_->future_taken) throw std::future_error(std::future_errc::future_already_retrieved); s_->future_taken = true; return sim_future<T>(s_); }
  template <class... U> void set_value(U &&...u) { if (s_->ready) throw std::future_error(std::future_errc::promise_already_satisfied); s_->val.set(std::forward<U>(u)...); s_->publish(); }
  void set_exception(std::exception_ptr e) { if (s_->ready) throw std::future_error(std::future_errc::promise_already_satisfied); s_->ex = e; s_->publish(); }
  void swap(sim_promise &o) noexcept { s_.swap(o.s_); }
};
template <class R, class Fn> void sim_run_into(sim_fstate<R> &st, Fn &fn) {
  try { if constexpr (std::is_void<R>::value) { fn(); st.val.set(); } else st.val.set(fn()); } catch (...) { st.ex = std::current_exception(); }
  st.publish();
}
template <class F, class... A> sim_future<typename std::invoke_result<typename std::decay<F>::type, typename std::decay<A>::type...>::type> sim_async(std::launch pol, F &&f, A &&...a) {
  typedef typename std::invoke_result<typename std::decay<F>::type, typename std::decay<A>::type...>::type R;
  std::shared_ptr<sim_fstate<R>> st = std::make_shared<sim_fstate<R>>();
  st->future_taken = true;
  sim_fstate<R> *raw = st.get();   // the state outlives the task: the last future waits for it and joins the thread
  auto call = std::make_shared<decltype(std::bind(std::forward<F>(f), std::forward<A>(a)...))>(std::bind(std::forward<F>(f), std::forward<A>(a)...));
  std::function<void()> task = [raw, call] { sim_run_into<R>(*raw, *call); };
  if ((int)pol & (int)std::launch::async) { st->is_async = true; st->th = sim_thread(task); }
  else st->deferred = task;
  return sim_future<R>(st);
}
template <class F, class... A, class = typename std::enable_if<!std::is_same<typename std::decay<F>::type, std::launch>::value>::type>
auto sim_async(F &&f, A &&...a) { return sim_async(std::launch::async, std::forward<F>(f), std::forward<A>(a)...); }
template <class Sig> class sim_packaged_task;
template <class R, class... A> class sim_packaged_task<R(A...)> {
  std::function<R(A...)> fn_;
  std::shared_ptr<sim_fstate<R>> s_;
public:
  sim_packaged_task() noexcept {}
  template <class F, class = typename std::enable_if<!std::is_same<typename std::decay<F>::type, sim_packaged_task>::value>::type>
  explicit sim_packaged_task(F &&f) : fn_(std::forward<F>(f)), s_(std::make_shared<sim_fstate<R>>()) {}
  sim_packaged_task(sim_packaged_task &&) noexcept = default;
  sim_packaged_task &operator=(sim_packaged_task &&) noexcept = default;
  sim_packaged_task(const sim_packaged_task &) = delete;
  sim_packaged_task &operator=(const sim_packaged_task &) = delete;
  ~sim_packaged_task() { if (s_ && !s_->ready && s_->future_taken) { s_->ex = std::make_exception_ptr(std::future_error(std::future_errc::broken_promise)); s_->publish(); } }
  bool valid() const noexcept { return (bool)s_; }
  sim_future<R> get_future() { if (s_->future_taken) throw std::future_error(std::future_errc::future_already_retrieved); s_->future_taken = true; return sim_future<R>(s_); }
  void operator()(A... a) { if (s_->ready) throw std::future_error(std::future_errc::promise_already_satisfied); auto b = [&] { return fn_(std::forward<A>(a)...); }; sim_run_into<R>(*s_, b); }
  void reset() { s_ = std::make_shared<sim_fstate<R>>(); }
  void swap(sim_packaged_task &o) noexcept { fn_.swap(o.fn_); s_.swap(o.s_); }
};

struct sim_once_flag {
  constexpr sim_once_flag() noexcept {}
  sim_once_flag(const sim_once_flag &) = delete;
  sim_once_flag &operator=(const sim_once_flag &) = delete;
  sim_mutex m_;
  bool done_ = false;
};
template <class F, class... A> void sim_call_once(sim_once_flag &fl, F &&f, A &&...a) {
  std::unique_lock<sim_mutex> l(fl.m_);   // held during the active execution: passive callers block in the simulator
  if (fl.done_) return;
  std::invoke(std::forward<F>(f), std::forward<A>(a)...);   // an exception leaves the flag unset, as the standard says
  fl.done_ = true;
}

namespace this_thread {
inline void sim_yield() noexcept { sim_yield_event(); }
template <class R, class P> void sim_sleep_for(const std::chrono::duration<R, P> &) { sim_yield_event(); }
template <class C, class D> void sim_sleep_until(const std::chrono::time_point<C, D> &) { sim_yield_event(); }
} // namespace this_thread

} // namespace std

#define mutex sim_mutex
#define recursive_mutex sim_recursive_mutex
#define timed_mutex sim_timed_mutex
#define recursive_timed_mutex sim_recursive_timed_mutex
#define shared_mutex sim_shared_mutex
#define shared_timed_mutex sim_shared_timed_mutex
#define condition_variable_any sim_condition_variable_any
#define once_flag sim_once_flag
#define future sim_future
#define shared_future sim_shared_future
#define promise sim_promise
#define packaged_task sim_packaged_task
#define async(...) sim_async(__VA_ARGS__)
#define call_once sim_call_once
#define yield sim_yield
#define sleep_for sim_sleep_for
#define sleep_until sim_sleep_until
#define atomic sim_atomic
#define atomic_flag sim_atomic_flag
#define atomic_bool sim_atomic<bool>
#define atomic_char sim_atomic<char>
#define atomic_schar sim_atomic<signed char>
#define atomic_uchar sim_atomic<unsigned char>
#define atomic_short sim_atomic<short>
#define atomic_ushort sim_atomic<unsigned short>
#define atomic_int sim_atomic<int>
#define atomic_uint sim_atomic<unsigned int>
#define atomic_long sim_atomic<long>
#define atomic_ulong sim_atomic<unsigned long>
#define atomic_llong sim_atomic<long long>
#define atomic_ullong sim_atomic<unsigned long long>
#define atomic_int8_t sim_atomic<int8_t>
#define atomic_uint8_t sim_atomic<uint8_t>
#define atomic_int16_t sim_atomic<int16_t>
#define atomic_uint16_t sim_atomic<uint16_t>
#define atomic_int32_t sim_atomic<int32_t>
#define atomic_uint32_t sim_atomic<uint32_t>
#define atomic_int64_t sim_atomic<int64_t>
#define atomic_uint64_t sim_atomic<uint64_t>
#define atomic_size_t sim_atomic<size_t>
#define atomic_ptrdiff_t sim_atomic<ptrdiff_t>
#define atomic_intptr_t sim_atomic<intptr_t>
#define atomic_uintptr_t sim_atomic<uintptr_t>
#define condition_variable sim_condition_variable
#define thread sim_thread
#endif // __cplusplus
#endif
