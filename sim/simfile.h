// Simulated file layer: FILE* streams (fopencookie) backed by simulator memory. DESIGN.md 2.3
#pragma once
#include <cstdio>
#include <cstdint>
#include <vector>
#include <string>
#include "rng.h"

struct WriteRec { long off; std::vector<uint8_t> data; };

struct SimFile {
  std::vector<uint8_t> data;
  long pos = 0;
  int id = 0;
  std::vector<WriteRec> wlog;      // every write that reached the "disk", in order
  long n_read_calls = 0, n_write_calls = 0, n_seek_calls = 0, bytes_written = 0, bytes_read = 0;
  long short_reads = 0, short_writes = 0;
  bool closed = false, opened = false;
  // fault knobs
  bool short_io = false;
  Rng io_rng{1};
  long size_cap = -1;              // writes that would grow the file beyond this fail (simulated full disk; only used to contain known-defect runs)
  bool cap_hit = false;
  long read_err_at = -1;           // reads at or beyond this offset fail with EIO (simulated media error), every time
  long read_errors = 0;
  // synthetic read-only content (function of the offset), for messages too large to store
  bool synth = false;
  long synth_len = 0;
  uint64_t synth_seed = 0;
  static inline uint8_t synth_byte(uint64_t seed, uint64_t off) { uint64_t x = seed + (off >> 3) * 0x9E3779B97F4A7C15ull; x ^= x >> 29; x *= 0xBF58476D1CE4E5B9ull; x ^= x >> 32; return (uint8_t)(x >> ((off & 7) * 8)); }
  void reset_logs() { wlog.clear(); n_read_calls = n_write_calls = n_seek_calls = bytes_written = bytes_read = 0; short_reads = short_writes = 0; closed = false; cap_hit = false; pos = 0; }
};

// bufmode: -1 stdio default, 0 unbuffered, n>0 fully buffered with an n-byte buffer
FILE *sim_fopen(SimFile *f, const char *mode, int bufmode);
