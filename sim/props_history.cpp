// C15: operations repeated in one process behave as in a fresh process.  DESIGN.md 5 (C15), oracle F.
// The process that drives a history never executes an operation itself (it is the zygote): the history runs in one
// forked child, every single operation additionally runs alone in its own forked child, results are compared.
#include "harness.h"
#include "ref.h"
#include "cry.h"
#include "getval.h"
#include <cstring>
#include <unistd.h>
#include <fcntl.h>
#include <ftw.h>
#include <sys/wait.h>
#include <sys/stat.h>
#include <time.h>

extern std::string g_outdir;
#ifdef WENCRY_SIM_COV
extern "C" void __gcov_dump(void);
#define COV_DUMP() __gcov_dump()
#else
#define COV_DUMP()
#endif

// ---------------------------------------------------------------- simulated clock (CLI key / seed come from time())
extern "C" time_t __real_time(time_t *);
static time_t g_sim_time = 0;
static bool g_sim_time_on = false;
extern "C" time_t __wrap_time(time_t *t) {
  if (!g_sim_time_on) return __real_time(t);
  if (t) *t = g_sim_time;
  return g_sim_time;
}

static Verdict viol(const std::string &cls, const std::string &detail) { Verdict v; v.violation = true; v.cls = cls; v.detail = detail; return v; }

static std::string b64(const uint8_t *p, size_t n) {
  static const char *tb = "ABCDEFGHIJKLMNOPQRSTUVWXYZabcdefghijklmnopqrstuvwxyz0123456789+/";
  std::string o;
  for (size_t i = 0; i < n; i += 3) {
    unsigned v = p[i] << 16 | (i + 1 < n ? p[i + 1] << 8 : 0) | (i + 2 < n ? p[i + 2] : 0);
    o.push_back(tb[v >> 18]); o.push_back(tb[(v >> 12) & 63]);
    o.push_back(i + 1 < n ? tb[(v >> 6) & 63] : '='); o.push_back(i + 2 < n ? tb[v & 63] : '=');
  }
  return o;
}

// op record layout
//  kind "api":  a = [op, T, cm, hm, len, pseed, variant, st, sp, ss, sw, oid]   data = key(16) || seedstr
//  kind "argv": a = [simtime, len, pseed, cm, hm, need_enc, outkind, st, sp, ss, sw, oid]   data = key(16) || argv strings joined by NUL
enum { V_NORMAL = 0, V_WRONGKEY, V_TAMPER, V_SHORT, V_FINNULL };

static long A(const Rec &r, size_t k) { return k < r.a.size() ? r.a[k] : 0; }

static simsched::SchedConfig sc_of(const Rec &r, long nbytes, int T) {
  simsched::SchedConfig c;
  size_t b = 7;
  c.strategy = (int)A(r, b);
  long sp = A(r, b + 1);
  if (c.strategy == simsched::ST_STICKY) c.sticky_p = sp >= 9999 ? 0.9999 : sp / 1000.0;
  if (c.strategy == simsched::ST_PCT) c.pct_depth = (int)std::max<long>(1, sp);
  if (c.strategy == simsched::ST_STARVE) c.starve_tid = (int)sp;
  c.seed = (uint64_t)A(r, b + 2);
  c.max_spurious = (int)A(r, b + 3);
  c.p_spurious = 0.03;
  c.est_steps = est_steps(nbytes, T);
  c.step_budget = 200 * c.est_steps + 20000;
  c.keep_events = false;
  return c;
}

struct Outcome { int status = 0; /* 1 done, 2 hang, 0 died */ bool ret = false; Bytes out; std::string note; long steps = 0, preempt = 0; bool live_after = false; uint64_t trace = 0; };

static int g_pipe_w = -1;
static void send_outcome(const Outcome &o) {
  std::string m;
  m.push_back((char)o.status);
  m.push_back((char)o.ret);
  m.push_back((char)o.live_after);
  uint32_t n = (uint32_t)o.out.size(), k = (uint32_t)o.note.size();
  int64_t st = o.steps, pr = o.preempt;
  uint64_t tr = o.trace;
  m.append((const char *)&n, 4); m.append((const char *)&k, 4); m.append((const char *)&st, 8); m.append((const char *)&pr, 8); m.append((const char *)&tr, 8);
  m.append((const char *)o.out.data(), n);
  m.append(o.note);
  size_t off = 0;
  while (off < m.size()) { ssize_t w = write(g_pipe_w, m.data() + off, m.size() - off); if (w <= 0) break; off += w; }
}
static bool parse_outcomes(const std::string &buf, std::vector<Outcome> &outs) {
  size_t p = 0;
  while (p + 35 <= buf.size()) {
    Outcome o;
    o.status = (unsigned char)buf[p]; o.ret = buf[p + 1] != 0; o.live_after = buf[p + 2] != 0;
    uint32_t n, k; int64_t st, pr; uint64_t tr;
    memcpy(&n, &buf[p + 3], 4); memcpy(&k, &buf[p + 7], 4); memcpy(&st, &buf[p + 11], 8); memcpy(&pr, &buf[p + 19], 8); memcpy(&tr, &buf[p + 27], 8);
    p += 35;
    if (p + n + k > buf.size()) return false;
    o.out.assign(buf.begin() + p, buf.begin() + p + n); p += n;
    o.note.assign(buf.begin() + p, buf.begin() + p + k); p += k;
    o.steps = st; o.preempt = pr; o.trace = tr;
    outs.push_back(o);
  }
  return true;
}

static void child_hang_cb(int kind, const char *detail) {
  Outcome o;
  o.status = 2;
  o.note = std::string("kind ") + std::to_string(kind) + ": " + detail;
  send_outcome(o);
  _exit(0);
}

static Bytes read_file(const std::string &p, bool &exists) {
  Bytes b;
  FILE *f = fopen(p.c_str(), "rb");
  exists = f != NULL;
  if (!f) return b;
  uint8_t tmp[65536];
  size_t n;
  while ((n = fread(tmp, 1, sizeof tmp, f)) > 0) b.insert(b.end(), tmp, tmp + n);
  fclose(f);
  return b;
}
static void write_file(const std::string &p, const Bytes &b) {
  FILE *f = fopen(p.c_str(), "wb");
  if (!f) return;
  if (!b.empty()) fwrite(b.data(), 1, b.size(), f);
  fclose(f);
}

// executes one operation in the calling process (cwd = a private directory)
static Outcome exec_op(const Rec &r, const Bytes &encinput) {
  Outcome o;
  o.status = 1;
  size_t CH = build_chunk_bytes();
  if (r.kind == "api") {
    int op = (int)A(r, 0), T = (int)A(r, 1);
    long len = A(r, 4);
    int variant = (int)A(r, 6);
    OpSpec s;
    s.kind = op; s.T = T; s.cmode = (int)A(r, 2); s.hmode = (int)A(r, 3);
    memcpy(s.key, r.data.data(), 16);
    s.seedstr.assign(r.data.begin() + 16, r.data.end());
    SimFile fin, fout;
    if (op == OP_ENC) fin.data = make_plain(len, (uint64_t)A(r, 5), 0, CH);
    else {
      fin.data = encinput;
      if (variant == V_WRONGKEY) s.key[3] ^= 0x40;
      if (variant == V_TAMPER && fin.data.size() > 60) fin.data[fin.data.size() - 5] ^= 0x10;
      if (variant == V_SHORT) fin.data.resize(std::min<size_t>(fin.data.size(), (size_t)(A(r, 5) % 74)));
    }
    s.fin = variant == V_FINNULL ? nullptr : &fin;
    s.fout = (op == OP_VER && (A(r, 5) & 1)) ? nullptr : &fout;
    s.fsize = fin.data.size();
    s.sc = sc_of(r, (long)fin.data.size(), T);
    g_ctx.opname = op == OP_ENC ? "enc" : op == OP_DEC ? "dec" : "ver";
    OpResult res = run_op(s);
    o.ret = res.ret;
    o.out = fout.data;
    o.steps = res.sr.steps; o.preempt = res.sr.preemptions; o.trace = res.sr.trace_hash;
  } else {
    // argv level, as main.cpp / test.cpp::exec do it, on real files
    long oid = A(r, 11);
    std::string in = "in" + std::to_string(oid), enc = "enc" + std::to_string(oid), out = "out" + std::to_string(oid);
    write_file(in, make_plain(A(r, 1), (uint64_t)A(r, 2), 0, CH));
    if (A(r, 5)) write_file(enc, encinput);
    std::vector<std::string> args;
    {
      std::string cur;
      for (size_t k = 16; k < r.data.size(); k++) {
        if (r.data[k] == 0) { args.push_back(cur); cur.clear(); } else cur.push_back((char)r.data[k]);
      }
      if (!cur.empty()) args.push_back(cur);
    }
    std::vector<char *> argv;
    for (auto &a : args) argv.push_back((char *)a.c_str());
    argv.push_back(NULL);
    g_sim_time = (time_t)A(r, 0);
    g_sim_time_on = true;
    g_ctx.opname = "cli";
    simsched::SchedConfig sc = sc_of(r, A(r, 1) + 200, 4);
    simsched::session_begin(sc);
    bool flag = false;
    {
      unsigned char *vals = get_v_opt((int)args.size(), argv.data());
      if (vals != NULL) {
        vpak_t *vp = (vpak_t *)vals;
        if (vp->mode == 'V') { version(); flag = true; }
        else if (vp->mode == 'h') { help(); flag = true; }
        else {
          Settings settings(vp->ctype, vp->htype, vp->no_echo);
          runcrypt runner(vp->fp, vp->out, vp->key, settings);
          if (vp->mode == 'e' || vp->mode == 'E') flag = runner.execute_encrypt(vp->size, vp->r_buf);
          else if (vp->mode == 'd' || vp->mode == 'D') flag = runner.execute_decrypt(vp->size);
          else if (vp->mode == 'v') flag = runner.execute_verify(vp->size);
        }
      }
    }
    simsched::SchedResult sr = simsched::session_end();
    g_sim_time_on = false;
    o.ret = flag;
    o.steps = sr.steps; o.preempt = sr.preemptions; o.trace = sr.trace_hash;
    bool ex = false;
    int outkind = (int)A(r, 6);
    if (outkind == 1) o.out = read_file(out, ex);
    else if (outkind == 2) o.out = read_file(in + ".wenc", ex);
    else if (outkind == 3) o.out = read_file(enc, ex);
    o.out.push_back(ex ? 1 : 0);
  }
  o.live_after = bufferctrl::haslive();
  return o;
}

static int rm_cb(const char *p, const struct stat *, int, struct FTW *) { return remove(p); }
static void rm_rf(const std::string &d) { nftw(d.c_str(), rm_cb, 16, FTW_DEPTH | FTW_PHYS); }

// run `fn` in a forked child with a private cwd; collects the outcomes it sends
template <class F> static std::vector<Outcome> in_child(const std::string &dir, F fn, int &wstatus) {
  std::vector<Outcome> outs;
  int pfd[2];
  wstatus = -1;
  if (pipe(pfd) != 0) return outs;
  pid_t pid = fork();
  if (pid == 0) {
    close(pfd[0]);
    g_pipe_w = pfd[1];
    g_ctx.hang_cb = child_hang_cb;
    g_ctx.hang = HANG_VIOLATION;
    arm_watchdog(20);
    { int nul = open("/dev/null", O_WRONLY); if (nul >= 0) { dup2(nul, 2); close(nul); } }   // getopt / std::cerr diagnostics
    mkdir(dir.c_str(), 0700);
    if (chdir(dir.c_str()) != 0) _exit(99);
    fn();
    COV_DUMP();
    _exit(0);
  }
  close(pfd[1]);
  ChildWait child_wait;
  std::string buf;
  char tmp[65536];
  ssize_t n;
  while ((n = read(pfd[0], tmp, sizeof tmp)) > 0) buf.append(tmp, n);
  close(pfd[0]);
  waitpid(pid, &wstatus, 0);
  parse_outcomes(buf, outs);
  return outs;
}

// ---------------------------------------------------------------- generation

static long plan_C15(const std::string &tier) { return tier == "quick" ? 6000 : 100000; }

static void put_sched(Rng &g, Rec &r, int T) {
  Scn tmp;
  pick_sched(g, tmp, 0, T, true);
  r.a.push_back(tmp.i["st0"]); r.a.push_back(tmp.i["sp0"]); r.a.push_back(tmp.i["ss0"]); r.a.push_back(tmp.i["sw0"]);
}

// Operations of one history are related on purpose: process-wide state that is keyed on part of an operation's
// parameters (a cached key schedule, hasher, buffer size, file name ...) only shows when a later operation repeats some
// parameters of an earlier one and changes others.
struct HistBase { uint8_t key[16]; int T; long cm, hm, len, pseed; };
static HistBase g_hb;
static void hist_key(Rng &g, uint8_t out[16]) {
  memcpy(out, g_hb.key, 16);
  switch (g.below(20)) {
  case 0: case 1: case 2: case 3: case 4: case 5: case 6: break;                           // the same key again
  case 7: case 8: case 9: case 10: g.bytes(out + 8, 8); break;                             // same first half
  case 11: case 12: g.bytes(out, 8); break;                                                // same second half
  case 13: case 14: out[g.below(16)] ^= (uint8_t)(1u << g.below(8)); break;                // one-bit neighbour
  case 15: out[15] ^= 0xFF; break;
  default: g.bytes(out, 16);                                                               // unrelated
  }
}

static Rec gen_api(Rng &g, long oid) {
  Rec r;
  r.kind = "api";
  int op = (int)g.below(3);
  int T = g.chance(0.5) ? g_hb.T : (g.chance(0.2) ? (int)g.range(5, 16) : (int)g.range(1, 4));
  long ch = (long)build_chunk_bytes();
  long len = g.chance(0.3) ? std::max<long>(0, (1 + (long)g.below(4)) * ch - 1 - (long)g.below(16)) : (long)g.below(4 * ch + 1);
  if (g.chance(0.4)) len = g_hb.len;
  int variant = V_NORMAL;
  if (g.chance(0.35)) variant = op == OP_ENC ? (g.chance(0.3) ? V_FINNULL : V_NORMAL) : 1 + (int)g.below(4);
  long cm = g.chance(0.5) ? g_hb.cm : (long)g.below(5), hm = g.chance(0.5) ? g_hb.hm : (long)g.below(3);
  long pseed = (len == g_hb.len && g.chance(0.6)) ? g_hb.pseed : (long)(g.next() >> 2);
  r.a = {op, T, cm, hm, len, pseed, variant};
  put_sched(g, r, T);
  r.a.push_back(oid);
  r.data.resize(16 + 1 + g.below(12));
  hist_key(g, r.data.data());
  for (size_t k = 16; k < r.data.size(); k++) r.data[k] = (uint8_t)(1 + g.below(255));
  if (g.chance(0.5)) {   // the same IV seed as other operations of this history, or one that differs in its last byte only
    r.data.resize(16 + 9);
    for (size_t k = 0; k < 9; k++) r.data[16 + k] = (uint8_t)(1 + (g_hb.pseed >> (k * 5)) % 255);
    if (g.chance(0.3)) r.data[24] = (uint8_t)(1 + g.below(255));
  }
  return r;
}

static void push_args(Rec &r, std::initializer_list<std::string> args) {
  for (auto &a : args) { r.data.insert(r.data.end(), a.begin(), a.end()); r.data.push_back(0); }
}

static Rec gen_argv(Rng &g, long oid) {
  Rec r;
  r.kind = "argv";
  long ch = (long)build_chunk_bytes();
  long len = g.chance(0.3) ? std::max<long>(0, (1 + (long)g.below(5)) * ch - 1 - (long)g.below(16)) : (long)g.below(5 * ch + 1);
  long cm = g.chance(0.5) ? g_hb.cm : (long)g.below(5), hm = g.chance(0.5) ? g_hb.hm : (long)g.below(3);
  long simtime = 1700000000 + (long)g.below(100000000);
  r.data.resize(16);
  hist_key(g, r.data.data());
  if (g.chance(0.3)) len = g_hb.len;
  std::string key = b64(r.data.data(), 16);
  std::string in = "in" + std::to_string(oid), enc = "enc" + std::to_string(oid), out = "out" + std::to_string(oid);
  long need_enc = 0, outkind = 0;
  std::string wrongkey = key;
  wrongkey[5] = wrongkey[5] == 'A' ? 'B' : 'A';
  push_args(r, {"wencry"});
  switch (g.below(20)) {
  case 0: case 1: case 2: push_args(r, {"-e", "-i", in, "-o", out, "-k", key, "--cmode", std::to_string(cm), "--hmode", std::to_string(hm)}); outkind = 1; break;
  case 3: push_args(r, {"-e", "-i", in, "-k", key, "-n"}); outkind = 2; break;
  case 4: push_args(r, {"-e", "-i", in, "-o", out}); outkind = 1; break;                       // key and seed from the (simulated) clock
  case 5: case 6: case 7: push_args(r, {"-d", "-i", enc, "-o", out, "-k", key}); need_enc = 1; outkind = 1; break;
  case 8: case 9: push_args(r, {"-v", "-i", enc, "-k", key}); need_enc = 1; break;
  case 10: push_args(r, {"-d", "-i", enc, "-o", out, "-k", wrongkey}); need_enc = 1; outkind = 1; break;
  case 11: push_args(r, {"-edn", "-i", in}); break;                                              // two modes inside one cluster
  case 12: push_args(r, {g.chance(0.5) ? "-ev" : "-dve", "-i", in, "-k", key}); break;
  case 13: push_args(r, {"-e", "-i"}); break;                                                    // missing value
  case 14: push_args(r, {"-x", "-e", "-i", in}); break;                                          // unknown option
  case 15: push_args(r, {"-e", "-o", out, "-k", key}); outkind = 1; break;                       // no input
  case 16: push_args(r, {"-e", "-i", in, "-o", out, "-k", "tooshort="}); outkind = 1; break;     // malformed key
  case 17: push_args(r, {"-d", "-i", "nonexistent" + std::to_string(oid), "-o", out, "-k", key}); outkind = 1; break;
  case 18: push_args(r, {g.chance(0.5) ? "-V" : "-h"}); break;
  default: push_args(r, {"-n", "-e", "--cmode", std::to_string(cm), "--cmode", std::to_string((cm + 1) % 5), "-i", in}); break;  // repeated option
  }
  r.a = {simtime, len, (long)(g.next() >> 2), cm, hm, need_enc, outkind};
  put_sched(g, r, 4);
  r.a.push_back(oid);
  return r;
}

static void gen_C15(const std::string &tier, uint64_t seed, long idx, Scn &s) {
  s.prop = "C15"; s.tier = tier; s.seed = seed; s.index = idx;
  Rng g(Rng::mix(seed, 0xC15, (uint64_t)idx));
  int n = 2 + (int)g.below(7);
  bool argv_heavy = g.chance(0.5);
  g.bytes(g_hb.key, 16);
  g_hb.T = (int)g.range(1, 4);
  g_hb.cm = (long)g.below(5); g_hb.hm = (long)g.below(3);
  g_hb.len = (long)g.below(4 * build_chunk_bytes() + 1);
  g_hb.pseed = (long)(g.next() >> 2);
  for (int k = 0; k < n; k++) {
    // now and then repeat an earlier API operation on the very same file and key, but as another kind of operation or
    // with the file tampered / the key wrong: state cached from the earlier, successful one must not leak into it
    if (k > 0 && g.chance(0.25)) {
      std::vector<size_t> apis;
      for (size_t q = 0; q < s.ops.size(); q++) if (s.ops[q].kind == "api") apis.push_back(q);
      if (!apis.empty()) {
        Rec r = s.ops[apis[g.below(apis.size())]];
        r.a[0] = 1 + (long)g.below(2);                                  // decrypt or verify
        r.a[6] = g.chance(0.5) ? V_NORMAL : 1 + (long)g.below(3);       // normal / wrong key / tampered / too short
        r.a[11] = k;
        s.ops.push_back(r);
        continue;
      }
    }
    s.ops.push_back(g.chance(argv_heavy ? 0.8 : 0.2) ? gen_argv(g, k) : gen_api(g, k));
  }
}

// ---------------------------------------------------------------- run

static Bytes enc_input_for(const Rec &r, const std::string &dir, bool &ok) {
  // ciphertext that a decrypt/verify operation works on: produced by the real encryption in its own fresh process
  Rec e;
  e.kind = "api";
  bool api = r.kind == "api";
  int T = api ? (int)A(r, 1) : 4;
  long len = api ? A(r, 4) : A(r, 1);
  long pseed = api ? A(r, 5) : A(r, 2);
  long cm = api ? A(r, 2) : A(r, 3), hm = api ? A(r, 3) : A(r, 4);
  e.a = {OP_ENC, T, cm, hm, len, pseed, V_NORMAL, simsched::ST_RR, 0, 1, 0, 0};
  e.data.assign(r.data.begin(), r.data.begin() + 16);
  e.data.push_back('s');
  int st;
  std::vector<Outcome> o = in_child(dir, [&]() { Outcome x = exec_op(e, Bytes()); send_outcome(x); }, st);
  ok = o.size() == 1 && o[0].status == 1 && o[0].ret && WIFEXITED(st) && WEXITSTATUS(st) == 0;
  return ok ? o[0].out : Bytes();
}

static const char *opdesc(const Rec &r) {
  static char buf[200];
  if (r.kind == "api") snprintf(buf, sizeof buf, "api:%s T=%ld len=%ld variant=%ld", A(r, 0) == 0 ? "enc" : A(r, 0) == 1 ? "dec" : "ver", A(r, 1), A(r, 4), A(r, 6));
  else {
    std::string a;
    for (size_t k = 16; k < r.data.size(); k++) a.push_back(r.data[k] ? (char)r.data[k] : ' ');
    snprintf(buf, sizeof buf, "argv:%.150s", a.c_str());
  }
  return buf;
}

static Verdict run_C15(const Scn &s) {
  Verdict v;
  char tmpl[512];
  snprintf(tmpl, sizeof tmpl, "%s/c15-XXXXXX", g_outdir.empty() ? "/tmp" : g_outdir.c_str());
  if (!mkdtemp(tmpl)) { snprintf(tmpl, sizeof tmpl, "/tmp/c15-XXXXXX"); if (!mkdtemp(tmpl)) { v.skipped = true; v.skip_reason = "no-scratch-dir"; return v; } }
  std::string dir = tmpl;
  std::vector<Rec> ops;
  std::vector<Bytes> inputs;
  std::vector<Outcome> fresh;
  uint64_t th = FNV_INIT;
  // 1. every operation alone in a fresh process
  for (size_t k = 0; k < s.ops.size(); k++) {
    const Rec &r = s.ops[k];
    Bytes input;
    bool need = r.kind == "api" ? (A(r, 0) != OP_ENC) : (A(r, 5) != 0);
    if (need) {
      bool ok;
      input = enc_input_for(r, dir + "/e" + std::to_string(k), ok);
      if (!ok) { g_stats.add("history.ops_dropped_input_unavailable", 1); continue; }
    }
    int st;
    std::vector<Outcome> o = in_child(dir + "/f" + std::to_string(k), [&]() { Outcome x = exec_op(r, input); send_outcome(x); }, st);
    g_stats.add("history.fresh_forks", 1);
    if (!(o.size() == 1 && o[0].status == 1 && WIFEXITED(st) && WEXITSTATUS(st) == 0)) {
      // not history dependence: this operation fails to terminate normally even when run first (C04/C11/C17 matter)
      g_stats.add("history.ops_dropped_fresh_abnormal", 1);
      continue;
    }
    ops.push_back(r);
    inputs.push_back(input);
    fresh.push_back(o[0]);
  }
  if (ops.size() < 1) { rm_rf(dir); v.skipped = true; v.skip_reason = "no-operation-left"; return v; }
  // 2. the history in one process
  int st;
  std::vector<Outcome> hist = in_child(dir + "/h", [&]() {
    for (size_t k = 0; k < ops.size(); k++) {
      g_ctx.slot = (int)k;
      Outcome x = exec_op(ops[k], inputs[k]);
      send_outcome(x);
    }
  }, st);
  rm_rf(dir);
  g_stats.add("history.histories", 1);
  g_stats.add("history.ops", (long)ops.size());
  for (size_t k = 0; k < ops.size(); k++) g_stats.add(std::string("history.op_") + (ops[k].kind == "api" ? "api" : "argv"), 1);
  v.nontrivial = ops.size() >= 2;
  uint64_t ch = FNV_INIT;
  for (auto &r : ops) { ch = fnv1a(ch, r.kind.data(), r.kind.size()); for (long a : r.a) ch = fnv1a_u64(ch, (uint64_t)a); ch = fnv1a(ch, r.data.data(), r.data.size()); }
  v.case_hash = ch;
  for (size_t k = 0; k < ops.size(); k++) {
    if (k >= hist.size()) {
      if (WIFEXITED(st) && WEXITSTATUS(st) == 15) { Verdict x; x.skipped = true; x.skip_reason = "unsimulated-blocking"; return x; }   // see on_alarm (main.cpp)
      std::string how = WIFSIGNALED(st) ? "killed by signal " + std::to_string(WTERMSIG(st)) : "exit status " + std::to_string(WEXITSTATUS(st));
      Verdict x = viol("history-process-died@" + ops[k].kind, "operation " + std::to_string(k) + " (" + opdesc(ops[k]) + ") terminated the process (" + how + ") as part of the history, but not when run first in a fresh process");
      x.case_hash = ch;
      return x;
    }
    const Outcome &h = hist[k], &f = fresh[k];
    g_stats.add("sched.steps", h.steps);
    g_stats.add("sched.preemptions", h.preempt);
    if (h.trace) g_stats.distinct_traces.insert(h.trace);
    if (h.live_after) g_stats.add("probe.live_buffers_after_operation", 1);
    th = fnv1a(fnv1a_u64(th, (uint64_t)h.ret * 2 + h.status), h.out.data(), h.out.size());
    if (h.status == 2) {
      Verdict x = viol("history-hangs@" + ops[k].kind, "operation " + std::to_string(k) + " (" + opdesc(ops[k]) + ") does not return as part of the history (" + h.note + "), but does in a fresh process");
      x.case_hash = ch;
      return x;
    }
    if (h.ret != f.ret) {
      Verdict x = viol("result-differs@" + ops[k].kind, "operation " + std::to_string(k) + " (" + opdesc(ops[k]) + ") returned " + (h.ret ? "true" : "false") + " as part of the history and " + (f.ret ? "true" : "false") + " in a fresh process");
      x.case_hash = ch; x.trace_hash = th;
      return x;
    }
    if (h.out != f.out) {
      // an operation whose output is not a function of its inputs even in a fresh process (a seed drawn from a clock or an
      // entropy source the simulation does not own) cannot be compared byte by byte: run it fresh once more to find out
      mkdir(dir.c_str(), 0700);
      int st2;
      std::vector<Outcome> o2 = in_child(dir + "/g" + std::to_string(k), [&]() { Outcome y = exec_op(ops[k], inputs[k]); send_outcome(y); }, st2);
      rm_rf(dir);
      g_stats.add("history.fresh_forks", 1);
      if (o2.size() == 1 && o2[0].status == 1 && o2[0].ret == f.ret && o2[0].out != f.out) { g_stats.add("probe.operation_not_deterministic_when_fresh", 1); continue; }
      Verdict x = viol("output-differs@" + ops[k].kind, "operation " + std::to_string(k) + " (" + opdesc(ops[k]) + ") wrote different output bytes as part of the history (" + std::to_string(h.out.size()) + " vs " + std::to_string(f.out.size()) + " bytes)");
      x.case_hash = ch; x.trace_hash = th;
      return x;
    }
  }
  v.trace_hash = th;
  return v;
}

// ---------------------------------------------------------------- C18 on the command-line path
// On the command line the caller's random seed is 256 bytes of rand() seeded from the clock (not NUL terminated).
// Two encryptions of the same file under the same key at different (simulated) times must get different IV fields,
// and the IV fields of one file must be pairwise distinct.
Verdict run_C18_cli(const Scn &s) {
  Verdict v;
  char tmpl[512];
  snprintf(tmpl, sizeof tmpl, "%s/c18-XXXXXX", g_outdir.empty() ? "/tmp" : g_outdir.c_str());
  if (!mkdtemp(tmpl)) { snprintf(tmpl, sizeof tmpl, "/tmp/c18-XXXXXX"); if (!mkdtemp(tmpl)) { v.skipped = true; v.skip_reason = "no-scratch-dir"; return v; } }
  std::string dir = tmpl;
  Bytes key = s.getb("key");
  std::string k64 = b64(key.data(), 16);
  Bytes outs[2];
  bool nonul[2] = {false, false};
  for (int q = 0; q < 2; q++) {
    Rec r;
    r.kind = "argv";
    long simtime = s.geti(q ? "t2" : "t1");
    r.data = key;
    push_args(r, {"wencry", "-e", "-i", "in0", "-o", "out0", "-k", k64, "--cmode", std::to_string(s.geti("cm")), "--hmode", std::to_string(s.geti("hm")), "-n"});
    r.a = {simtime, s.geti("len"), s.geti("pseed"), s.geti("cm"), s.geti("hm"), 0, 1, simsched::ST_UNIFORM, 0, s.geti("ss0", 1) + q, 0, 0};
    int st;
    std::vector<Outcome> o = in_child(dir + "/r" + std::to_string(q), [&]() { Outcome x = exec_op(r, Bytes()); send_outcome(x); }, st);
    if (!(o.size() == 1 && o[0].status == 1 && o[0].ret && WIFEXITED(st) && WEXITSTATUS(st) == 0)) { rm_rf(dir); v.skipped = true; v.skip_reason = "cli-encrypt-did-not-succeed"; return v; }
    outs[q] = o[0].out;
    if (!outs[q].empty()) outs[q].pop_back();   // exists flag
    // what seed did the parser draw? (same libc sequence: srand(time) in get_v_opt, then 256 x rand() because -k is given)
    srand((unsigned)simtime);
    nonul[q] = true;
    for (int i = 0; i < 256; i++) if ((uint8_t)rand() == 0) nonul[q] = false;
    if (nonul[q]) g_stats.add("probe.cli_seed_without_nul_in_256_bytes", 1);
  }
  rm_rf(dir);
  g_stats.add("probe.cli_encryption_pairs", 1);
  v.nontrivial = true;
  v.case_hash = fnv1a_u64(fnv1a_u64(FNV_INIT, (uint64_t)s.geti("t1")), (uint64_t)s.geti("t2") * 31 + s.geti("cm"));
  const size_t T = 4, hs = 48 + 20 * T;
  if (outs[0].size() < hs || outs[1].size() < hs) { v.skipped = true; v.skip_reason = "cli-output-too-short"; v.nontrivial = false; return v; }
  v.trace_hash = fnv1a(fnv1a(FNV_INIT, outs[0].data(), outs[0].size()), outs[1].data(), outs[1].size());
  auto V = [&](const std::string &c, const std::string &d) { Verdict x; x.violation = true; x.cls = c; x.detail = d; x.case_hash = v.case_hash; x.nontrivial = true; x.trace_hash = v.trace_hash; return x; };
  for (int q = 0; q < 2; q++)
    for (size_t a = 0; a < T; a++)
      for (size_t b = a + 1; b < T; b++)
        if (memcmp(&outs[q][48 + 20 * a], &outs[q][48 + 20 * b], 20) == 0) return V("header-iv-repeated@cli", "command-line encryption: header IV slots " + std::to_string(a) + " and " + std::to_string(b) + " are equal");
  if (memcmp(&outs[0][48], &outs[1][48], 20 * T) == 0)
    return V("iv-independent-of-seed@cli", "two command-line encryptions at different times (" + std::to_string(s.geti("t1")) + ", " + std::to_string(s.geti("t2")) + "; seeds " +
                                                (nonul[0] && nonul[1] ? "both without a zero byte in their 256 bytes" : "as drawn by the parser") + ") produced the same IV fields");
  return v;
}

// ---------------------------------------------------------------- C02 on the command-line path
// `wencry -e -i F -o G -k <base64 string> --cmode c --hmode h` must write exactly the documented file for the key that the
// string denotes (RFC 4648), the modes given and four streams.  The seed is the parser's business (256 bytes of rand() after
// srand(time), read as a C string - or whatever a later version draws): the comparison starts from the first IV found in
// the file, which is all the format lets an observer know about the seed, and checks everything else: magic, mode bytes,
// zero fill, the SHA-1 chain of the other IVs, the body under that IV, the tag.  (Whether the first IV is the SHA-1 of
// the modelled seed is counted as a probe; that it depends on the seed at all is C18's command-line scenario.)
Verdict run_C02_cli(const Scn &s) {
  Verdict v;
  long simtime = s.geti("t1");
  char tmpl[512];
  snprintf(tmpl, sizeof tmpl, "%s/c02-XXXXXX", g_outdir.empty() ? "/tmp" : g_outdir.c_str());
  if (!mkdtemp(tmpl)) { snprintf(tmpl, sizeof tmpl, "/tmp/c02-XXXXXX"); if (!mkdtemp(tmpl)) { v.skipped = true; v.skip_reason = "no-scratch-dir"; return v; } }
  std::string dir = tmpl;
  Bytes key = s.getb("key");
  std::string k64 = b64(key.data(), 16);
  long len = s.geti("len"), pseed = s.geti("pseed"), cm = s.geti("cm"), hm = s.geti("hm");
  Rec r;
  r.kind = "argv";
  r.data = key;
  // the same request spelt in different legal ways: option groups in any order, `--cmode=c` or `--cmode c`, the defaults
  // (mode 0, hash 0, <input>.wenc) left out, -e and -n clustered
  Rng og(Rng::mix((uint64_t)s.geti("ss0", 1), 0xC02C, (uint64_t)simtime));
  uint64_t fl = og.next();
  bool eqform = fl & 1, omit_c = (fl & 2) && cm == 0, omit_h = (fl & 4) && hm == 0, defout = fl & 8, cluster = fl & 16;
  std::vector<std::vector<std::string>> groups;
  if (cluster) groups.push_back({(fl & 32) ? "-en" : "-ne"}); else { groups.push_back({"-e"}); groups.push_back({"-n"}); }
  groups.push_back({"-i", "in0"});
  if (!defout) groups.push_back({"-o", "out0"});
  groups.push_back({"-k", k64});
  if (!omit_c) { if (eqform) groups.push_back({"--cmode=" + std::to_string(cm)}); else groups.push_back({"--cmode", std::to_string(cm)}); }
  if (!omit_h) { if (fl & 64) groups.push_back({"--hmode=" + std::to_string(hm)}); else groups.push_back({"--hmode", std::to_string(hm)}); }
  for (size_t i = groups.size(); i > 1; i--) std::swap(groups[i - 1], groups[og.below(i)]);
  std::string cmdline = "wencry";
  push_args(r, {"wencry"});
  for (auto &gr : groups) for (auto &a : gr) { push_args(r, {a}); cmdline += " " + a; }
  r.a = {simtime, len, pseed, cm, hm, 0, defout ? 2 : 1, simsched::ST_UNIFORM, 0, s.geti("ss0", 1), 0, 0};
  int st;
  std::vector<Outcome> o = in_child(dir + "/e", [&]() { Outcome x = exec_op(r, Bytes()); send_outcome(x); }, st);
  rm_rf(dir);
  g_stats.add("history.fresh_forks", 1);
  v.case_hash = fnv1a(fnv1a_u64(fnv1a_u64(fnv1a_u64(FNV_INIT, (uint64_t)simtime), (uint64_t)(len * 64 + cm * 8 + hm)), fl & 127), key.data(), 16);
  if (!(o.size() == 1 && o[0].status == 1 && WIFEXITED(st) && WEXITSTATUS(st) == 0)) { v.skipped = true; v.skip_reason = "cli-encrypt-did-not-terminate-normally"; return v; }
  v.nontrivial = true;
  g_stats.add("probe.cli_files_compared_with_reference", 1);
  auto V = [&](const std::string &c, const std::string &d) { Verdict x; x.violation = true; x.cls = c; x.detail = d; x.case_hash = v.case_hash; x.nontrivial = true; return x; };
  if (!o[0].ret || o[0].out.empty() || o[0].out.back() != 1) return V("enc-returned-false@cli", "`" + cmdline + "` did not succeed or wrote no file");
  Bytes E(o[0].out.begin(), o[0].out.end() - 1);
  v.trace_hash = fnv1a(FNV_INIT, E.data(), E.size());
  Bytes P = make_plain(len, (uint64_t)pseed, 0, build_chunk_bytes());
  const std::string what = "file written by `" + cmdline + "` (" + std::to_string(E.size()) + " bytes)";
  if (E.size() < 68) { Verdict x = V("format@cli", what + " is shorter than a header with one IV"); x.trace_hash = v.trace_hash; return x; }
  Bytes R = ref_encrypt_file_iv0(P, key.data(), (int)cm, (int)hm, &E[48], 4, build_chunk_bytes());
  if (E != R) {
    size_t k = 0;
    while (k < E.size() && k < R.size() && E[k] == R[k]) k++;
    Verdict x = V("format@cli", what + " differs from the documented format for that key, cipher mode " + std::to_string(cm) + ", hash mode " + std::to_string(hm) + ", 4 streams and the first IV it carries (" + std::to_string(R.size()) + " bytes), first at offset " + std::to_string(k));
    x.trace_hash = v.trace_hash;
    return x;
  }
  // probe: is the first IV the SHA-1 of the seed as modelled (C string of the 256 rand() bytes drawn after srand(simulated time))?
  srand((unsigned)simtime);
  Bytes seedstr;
  bool terminated = false;
  for (int i = 0; i < 256; i++) { uint8_t b = (uint8_t)rand(); if (b == 0) { terminated = true; break; } seedstr.push_back(b); }
  if (terminated) {
    Bytes iv0 = ref_hash(0, seedstr.data(), seedstr.size());
    g_stats.add(memcmp(iv0.data(), &E[48], 20) == 0 ? "probe.cli_first_iv_is_sha1_of_modelled_seed" : "probe.cli_first_iv_from_another_seed_source", 1);
  }
  return v;
}

// ---------------------------------------------------------------- C01 on the command-line path
// `wencry -e` then `wencry -d` with the same key string, each command line in a pristine process and each spelt in one of
// the legal ways (option order, = form, defaults left out, clustered short options), must both succeed and reproduce the file.
static std::string spell(Rng &og, Rec &r, const std::string &modeflag, std::vector<std::vector<std::string>> groups) {
  uint64_t fl = og.next();
  if (fl & 1) groups.push_back({(fl & 2) ? modeflag + "n" : std::string("-n") + modeflag.substr(1)}); else { groups.push_back({modeflag}); groups.push_back({"-n"}); }
  for (size_t i = groups.size(); i > 1; i--) std::swap(groups[i - 1], groups[og.below(i)]);
  std::string cmdline = "wencry";
  push_args(r, {"wencry"});
  for (auto &gr : groups) for (auto &a : gr) { push_args(r, {a}); cmdline += " " + a; }
  return cmdline;
}
Verdict run_C01_cli(const Scn &s) {
  Verdict v;
  long simtime = s.geti("t1");
  char tmpl[512];
  snprintf(tmpl, sizeof tmpl, "%s/c01-XXXXXX", g_outdir.empty() ? "/tmp" : g_outdir.c_str());
  if (!mkdtemp(tmpl)) { snprintf(tmpl, sizeof tmpl, "/tmp/c01-XXXXXX"); if (!mkdtemp(tmpl)) { v.skipped = true; v.skip_reason = "no-scratch-dir"; return v; } }
  std::string dir = tmpl;
  Bytes key = s.getb("key");
  std::string k64 = b64(key.data(), 16);
  long len = s.geti("len"), pseed = s.geti("pseed"), cm = s.geti("cm"), hm = s.geti("hm");
  Rng og(Rng::mix((uint64_t)s.geti("ss0", 1), 0xC01C, (uint64_t)simtime));
  uint64_t fl = og.next();
  bool defout = fl & 1;
  std::vector<std::vector<std::string>> ge = {{"-i", "in0"}, {"-k", k64}};
  if (!defout) ge.push_back({"-o", "enc0"});
  if (!((fl & 2) && cm == 0)) { if (fl & 4) ge.push_back({"--cmode=" + std::to_string(cm)}); else ge.push_back({"--cmode", std::to_string(cm)}); }
  if (!((fl & 8) && hm == 0)) { if (fl & 16) ge.push_back({"--hmode=" + std::to_string(hm)}); else ge.push_back({"--hmode", std::to_string(hm)}); }
  Rec re;
  re.kind = "argv"; re.data = key;
  std::string ecmd = spell(og, re, "-e", ge);
  // exec_op names: input in<oid>, -o files as given; with oid 0 the encrypted file is enc0 resp. in0.wenc
  re.a = {simtime, len, pseed, cm, hm, 0, defout ? 2 : 3, simsched::ST_UNIFORM, 0, s.geti("ss0", 1), 0, 0};
  int st;
  std::vector<Outcome> oe = in_child(dir + "/e", [&]() { Outcome x = exec_op(re, Bytes()); send_outcome(x); }, st);
  g_stats.add("history.fresh_forks", 1);
  v.case_hash = fnv1a(fnv1a_u64(fnv1a_u64(fnv1a_u64(FNV_INIT, (uint64_t)simtime), (uint64_t)(len * 64 + cm * 8 + hm)), fl & 31), key.data(), 16);
  auto V = [&](const std::string &c, const std::string &d) { Verdict x; x.violation = true; x.cls = c; x.detail = d; x.case_hash = v.case_hash; x.nontrivial = true; return x; };
  if (!(oe.size() == 1 && oe[0].status == 1 && WIFEXITED(st) && WEXITSTATUS(st) == 0)) { rm_rf(dir); v.skipped = true; v.skip_reason = "cli-encrypt-did-not-terminate-normally"; return v; }
  v.nontrivial = true;
  g_stats.add("probe.cli_round_trips", 1);
  if (!oe[0].ret || oe[0].out.empty() || oe[0].out.back() != 1) { rm_rf(dir); return V("enc-returned-false@cli", "`" + ecmd + "` did not succeed or wrote no file"); }
  Bytes E(oe[0].out.begin(), oe[0].out.end() - 1);
  Rec rd;
  rd.kind = "argv"; rd.data = key;
  std::string dcmd = spell(og, rd, "-d", {{"-i", "enc0"}, {"-o", "out0"}, {"-k", k64}});
  rd.a = {simtime + 60, len, pseed, cm, hm, 1, 1, simsched::ST_UNIFORM, 0, s.geti("ss0", 1) + 1, 0, 0};
  std::vector<Outcome> od = in_child(dir + "/d", [&]() { Outcome x = exec_op(rd, E); send_outcome(x); }, st);
  rm_rf(dir);
  g_stats.add("history.fresh_forks", 1);
  if (!(od.size() == 1 && od[0].status == 1 && WIFEXITED(st) && WEXITSTATUS(st) == 0)) { v.skipped = true; v.nontrivial = false; v.skip_reason = "cli-decrypt-did-not-terminate-normally"; return v; }
  v.trace_hash = fnv1a(fnv1a(FNV_INIT, E.data(), E.size()), od[0].out.data(), od[0].out.size());
  if (!od[0].ret) { Verdict x = V("dec-returned-false@cli", "`" + dcmd + "` rejected the file just written by `" + ecmd + "`"); x.trace_hash = v.trace_hash; return x; }
  Bytes P = make_plain(len, (uint64_t)pseed, 0, build_chunk_bytes());
  Bytes D(od[0].out.begin(), od[0].out.end() - (od[0].out.empty() ? 0 : 1));
  if (od[0].out.empty() || od[0].out.back() != 1 || D != P) {
    Verdict x = V(D.size() != P.size() ? "length-differs@cli" : "bytes-differ@cli", "`" + ecmd + "` then `" + dcmd + "`: both succeeded, the restored file has " + std::to_string(D.size()) + " bytes, the original " + std::to_string(P.size()) + (D.size() == P.size() ? ", contents differ" : ""));
    x.trace_hash = v.trace_hash;
    return x;
  }
  return v;
}

// ---------------------------------------------------------------- C06 on the command-line path
// The user's key is a string.  A file written by `wencry -e -k <string>` must be rejected by `-v` and `-d` with the string
// of every one-bit neighbour of that key (all 128), each command line executed in a pristine process of its own, and a
// rejected decryption must leave no plaintext behind.
Verdict run_C06_cli(const Scn &s) {
  Verdict v;
  char tmpl[512];
  snprintf(tmpl, sizeof tmpl, "%s/c06-XXXXXX", g_outdir.empty() ? "/tmp" : g_outdir.c_str());
  if (!mkdtemp(tmpl)) { snprintf(tmpl, sizeof tmpl, "/tmp/c06-XXXXXX"); if (!mkdtemp(tmpl)) { v.skipped = true; v.skip_reason = "no-scratch-dir"; return v; } }
  std::string dir = tmpl;
  Bytes key = s.getb("key");
  if (key.size() != 16) { rm_rf(dir); v.skipped = true; v.skip_reason = "no-key"; return v; }
  long simtime = 1700000000 + s.geti("file");
  long len = s.geti("len"), pseed = s.geti("pseed", 7), cm = s.geti("cm"), hm = s.geti("hm");
  auto run = [&](const std::string &tag, std::initializer_list<std::string> args, const Bytes &k, const Bytes &encinput, int need_enc, int outkind, bool &ok) {
    Rec r;
    r.kind = "argv";
    r.data = k;
    push_args(r, args);
    r.a = {simtime, len, pseed, cm, hm, need_enc, outkind, simsched::ST_UNIFORM, 0, s.geti("ss0", 1), 0, 0};
    int st;
    std::vector<Outcome> o = in_child(dir + "/" + tag, [&]() { Outcome x = exec_op(r, encinput); send_outcome(x); }, st);
    g_stats.add("history.fresh_forks", 1);
    ok = o.size() == 1 && o[0].status == 1 && WIFEXITED(st) && WEXITSTATUS(st) == 0;
    return ok ? o[0] : Outcome();
  };
  std::string k64 = b64(key.data(), 16);
  bool ok;
  Outcome e = run("e", {"wencry", "-e", "-i", "in0", "-o", "out0", "-k", k64, "--cmode", std::to_string(cm), "--hmode", std::to_string(hm), "-n"}, key, Bytes(), 0, 1, ok);
  if (!ok || !e.ret || e.out.size() < 2 || e.out.back() != 1) { rm_rf(dir); v.skipped = true; v.skip_reason = "cli-encrypt-did-not-succeed"; return v; }
  Bytes E(e.out.begin(), e.out.end() - 1);
  Outcome same = run("s", {"wencry", "-v", "-i", "enc0", "-k", k64, "-n"}, key, E, 1, 0, ok);
  if (!ok || !same.ret) { rm_rf(dir); v.skipped = true; v.skip_reason = "cli-verify-with-the-same-string-failed"; return v; }   // C01's business, not C06's
  v.nontrivial = true;
  v.case_hash = fnv1a(fnv1a_u64(FNV_INIT, (uint64_t)(cm * 8 + hm)), key.data(), 16);
  v.trace_hash = fnv1a(FNV_INIT, E.data(), E.size());
  g_stats.add("probe.cli_wrong_key_files", 1);
  for (int j = 0; j < 128; j++) {
    Bytes k2 = key;
    k2[j / 8] ^= (uint8_t)(1u << (j % 8));
    std::string w64 = b64(k2.data(), 16);
    Outcome ver = run("v" + std::to_string(j), {"wencry", "-v", "-i", "enc0", "-k", w64, "-n"}, k2, E, 1, 0, ok);
    std::string what;
    if (!ok) { g_stats.add("skipped_cli_neighbour_abnormal", 1); continue; }   // does not terminate normally even when fresh: C04/C11/C17 matter
    if (ver.ret) what = "`wencry -v` accepted";
    else {
      Outcome dec = run("d" + std::to_string(j), {"wencry", "-d", "-i", "enc0", "-o", "out0", "-k", w64, "-n"}, k2, E, 1, 1, ok);
      if (!ok) { g_stats.add("skipped_cli_neighbour_abnormal", 1); continue; }
      if (dec.ret) what = "`wencry -d` accepted";
      else if (dec.out.size() > 1) what = "`wencry -d` reported failure but left " + std::to_string(dec.out.size() - 1) + " bytes of output for";
    }
    g_stats.add("fault.cli_key_bitflip", 1);
    if (!what.empty()) {
      rm_rf(dir);
      Verdict x;
      x.violation = true;
      x.cls = "wrong-key-string-accepted@cli";
      x.detail = what + " the key string " + w64 + " for a file written with -k " + k64 + " (the strings denote keys that differ in bit " + std::to_string(j) + ")";
      x.case_hash = v.case_hash; x.trace_hash = v.trace_hash; x.nontrivial = true;
      return x;
    }
  }
  rm_rf(dir);
  return v;
}

extern const PropDef PROPS_HISTORY[] = {
    {"C15", plan_C15, gen_C15, run_C15},
    {nullptr, nullptr, nullptr, nullptr}};
