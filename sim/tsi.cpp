// 'tsi' builds: the __tsan_* entry points that -fsanitize=thread instrumentation calls, implemented by the simulator
// (the binary is NOT linked against libtsan).  DESIGN.md 10.16.
#ifdef WENCRY_SIM_TSI
#include "simsched.h"
#include <cstdint>
#include <cstddef>
#include <cstdlib>
#include <new>
#include <malloc.h>

void *operator new(std::size_t n) {
  void *p = malloc(n ? n : 1);
  if (!p) throw std::bad_alloc();
  simsched::mem_fresh(p, n);
  return p;
}
void operator delete(void *p) noexcept {
  if (!p) return;
  simsched::mem_fresh(p, malloc_usable_size(p));
  free(p);
}
extern "C" {
void __tsan_init() {}
void __tsan_func_entry(void *) {}
void __tsan_func_exit(void *) {}
void __tsan_vptr_update(void *, void *) {}
void __tsan_vptr_read(void *) {}
#define RW(n) \
  void __tsan_read##n(void *p) { simsched::mem_access(p, n, false); } \
  void __tsan_write##n(void *p) { simsched::mem_access(p, n, true); } \
  void __tsan_unaligned_read##n(void *p) { simsched::mem_access(p, n, false); } \
  void __tsan_unaligned_write##n(void *p) { simsched::mem_access(p, n, true); }
RW(1) RW(2) RW(4) RW(8) RW(16)
void __tsan_read_range(void *p, long n) { simsched::mem_access(p, n > 16 ? 16 : (unsigned)n, false); }
void __tsan_write_range(void *p, long n) { simsched::mem_access(p, n > 16 ? 16 : (unsigned)n, true); }
// atomics inside instrumented code.  Those of std::atomic<T> arrive here from within sim_atomic (sim_std.h), which has told
// the simulator already; any other (GCC builtins, atomic_ref, C atomics) is announced from here: scheduling point before,
// happens-before transfer after, like every atomic.
#define EVB(a, k) bool ev_ = simsched::atomic_cb_begin((const void *)(a), k)
#define EVE(a, k) if (ev_) simsched::atomic_cb_end((const void *)(a), k)
#define AT(bits, T) \
  T __tsan_atomic##bits##_load(const volatile void *a, int) { EVB(a, 0); T r = __atomic_load_n((const volatile T *)a, __ATOMIC_SEQ_CST); EVE(a, 0); return r; } \
  void __tsan_atomic##bits##_store(volatile void *a, T v, int) { EVB(a, 1); __atomic_store_n((volatile T *)a, v, __ATOMIC_SEQ_CST); EVE(a, 1); } \
  T __tsan_atomic##bits##_exchange(volatile void *a, T v, int) { EVB(a, 2); T r = __atomic_exchange_n((volatile T *)a, v, __ATOMIC_SEQ_CST); EVE(a, 2); return r; } \
  T __tsan_atomic##bits##_fetch_add(volatile void *a, T v, int) { EVB(a, 2); T r = __atomic_fetch_add((volatile T *)a, v, __ATOMIC_SEQ_CST); EVE(a, 2); return r; } \
  T __tsan_atomic##bits##_fetch_sub(volatile void *a, T v, int) { EVB(a, 2); T r = __atomic_fetch_sub((volatile T *)a, v, __ATOMIC_SEQ_CST); EVE(a, 2); return r; } \
  T __tsan_atomic##bits##_fetch_and(volatile void *a, T v, int) { EVB(a, 2); T r = __atomic_fetch_and((volatile T *)a, v, __ATOMIC_SEQ_CST); EVE(a, 2); return r; } \
  T __tsan_atomic##bits##_fetch_or(volatile void *a, T v, int) { EVB(a, 2); T r = __atomic_fetch_or((volatile T *)a, v, __ATOMIC_SEQ_CST); EVE(a, 2); return r; } \
  T __tsan_atomic##bits##_fetch_xor(volatile void *a, T v, int) { EVB(a, 2); T r = __atomic_fetch_xor((volatile T *)a, v, __ATOMIC_SEQ_CST); EVE(a, 2); return r; } \
  T __tsan_atomic##bits##_fetch_nand(volatile void *a, T v, int) { EVB(a, 2); T r = __atomic_fetch_nand((volatile T *)a, v, __ATOMIC_SEQ_CST); EVE(a, 2); return r; } \
  bool __tsan_atomic##bits##_compare_exchange_strong(volatile void *a, void *e, T v, int, int) { EVB(a, 2); bool r = __atomic_compare_exchange_n((volatile T *)a, (T *)e, v, 0, __ATOMIC_SEQ_CST, __ATOMIC_SEQ_CST); EVE(a, 2); return r; } \
  bool __tsan_atomic##bits##_compare_exchange_weak(volatile void *a, void *e, T v, int, int) { EVB(a, 2); bool r = __atomic_compare_exchange_n((volatile T *)a, (T *)e, v, 0, __ATOMIC_SEQ_CST, __ATOMIC_SEQ_CST); EVE(a, 2); return r; }
AT(8, uint8_t) AT(16, uint16_t) AT(32, uint32_t) AT(64, uint64_t)
void __tsan_atomic_thread_fence(int) { __atomic_thread_fence(__ATOMIC_SEQ_CST); }
void __tsan_atomic_signal_fence(int) {}
}
#endif
