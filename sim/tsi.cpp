// 'tsi' builds: the __tsan_* entry points that -fsanitize=thread instrumentation calls, implemented by the simulator
// (the binary is NOT linked against libtsan).  DESIGN.md 10.16.
#ifdef WENCRY_SIM_TSI
#include "simsched.h"
#include <cstdint>
#include <cstddef>
#include <cstdlib>
#include <new>
#include <malloc.h>

void *operator new(std::size_t n) {
  void *p = malloc(n ? n : 1);
  if (!p) throw std::bad_alloc();
  simsched::mem_fresh(p, n);
  return p;
}
void operator delete(void *p) noexcept {
  if (!p) return;
  simsched::mem_fresh(p, malloc_usable_size(p));
  free(p);
}
extern "C" {
void __tsan_init() {}
void __tsan_func_entry(void *) {}
void __tsan_func_exit(void *) {}
void __tsan_vptr_update(void *, void *) {}
void __tsan_vptr_read(void *) {}
#define RW(n) \
  void __tsan_read##n(void *p) { simsched::mem_access(p, n, false); } \
  void __tsan_write##n(void *p) { simsched::mem_access(p, n, true); } \
  void __tsan_unaligned_read##n(void *p) { simsched::mem_access(p, n, false); } \
  void __tsan_unaligned_write##n(void *p) { simsched::mem_access(p, n, true); }
RW(1) RW(2) RW(4) RW(8) RW(16)
void __tsan_read_range(void *p, long n) { simsched::mem_access(p, n > 16 ? 16 : (unsigned)n, false); }
void __tsan_write_range(void *p, long n) { simsched::mem_access(p, n > 16 ? 16 : (unsigned)n, true); }
// std::atomic inside instrumented code: plain builtins (the simulator learns about atomics through sim_std.h)
#define AT(bits, T) \
  T __tsan_atomic##bits##_load(const volatile void *a, int) { return __atomic_load_n((const volatile T *)a, __ATOMIC_SEQ_CST); } \
  void __tsan_atomic##bits##_store(volatile void *a, T v, int) { __atomic_store_n((volatile T *)a, v, __ATOMIC_SEQ_CST); } \
  T __tsan_atomic##bits##_exchange(volatile void *a, T v, int) { return __atomic_exchange_n((volatile T *)a, v, __ATOMIC_SEQ_CST); } \
  T __tsan_atomic##bits##_fetch_add(volatile void *a, T v, int) { return __atomic_fetch_add((volatile T *)a, v, __ATOMIC_SEQ_CST); } \
  T __tsan_atomic##bits##_fetch_sub(volatile void *a, T v, int) { return __atomic_fetch_sub((volatile T *)a, v, __ATOMIC_SEQ_CST); } \
  T __tsan_atomic##bits##_fetch_and(volatile void *a, T v, int) { return __atomic_fetch_and((volatile T *)a, v, __ATOMIC_SEQ_CST); } \
  T __tsan_atomic##bits##_fetch_or(volatile void *a, T v, int) { return __atomic_fetch_or((volatile T *)a, v, __ATOMIC_SEQ_CST); } \
  T __tsan_atomic##bits##_fetch_xor(volatile void *a, T v, int) { return __atomic_fetch_xor((volatile T *)a, v, __ATOMIC_SEQ_CST); } \
  bool __tsan_atomic##bits##_compare_exchange_strong(volatile void *a, void *e, T v, int, int) { return __atomic_compare_exchange_n((volatile T *)a, (T *)e, v, 0, __ATOMIC_SEQ_CST, __ATOMIC_SEQ_CST); } \
  bool __tsan_atomic##bits##_compare_exchange_weak(volatile void *a, void *e, T v, int, int) { return __atomic_compare_exchange_n((volatile T *)a, (T *)e, v, 0, __ATOMIC_SEQ_CST, __ATOMIC_SEQ_CST); }
AT(8, uint8_t) AT(16, uint16_t) AT(32, uint32_t) AT(64, uint64_t)
void __tsan_atomic_thread_fence(int) { __atomic_thread_fence(__ATOMIC_SEQ_CST); }
void __tsan_atomic_signal_fence(int) {}
}
#endif
