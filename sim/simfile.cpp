#ifndef _GNU_SOURCE
#define _GNU_SOURCE
#endif
#include "simfile.h"
#include "simsched.h"
#include <cstring>
#include <cerrno>

static ssize_t sf_read(void *c, char *buf, size_t n) {
  SimFile *f = (SimFile *)c;
  f->n_read_calls++;
  long avail = (f->synth ? f->synth_len : (long)f->data.size()) - f->pos;
  if (avail <= 0 || n == 0) { simsched::io_event(simsched::EV_IO_READ, f->id, 0); return 0; }
  size_t k = n < (size_t)avail ? n : (size_t)avail;
  if (f->read_err_at >= 0) {
    if (f->pos >= f->read_err_at) { f->read_errors++; simsched::io_event(simsched::EV_IO_READ, f->id, -1); errno = EIO; return -1; }
    if (f->pos + (long)k > f->read_err_at) k = (size_t)(f->read_err_at - f->pos);
  }
  if (f->short_io && k > 1 && f->io_rng.chance(0.3)) { k = 1 + f->io_rng.below(k - 1); f->short_reads++; }
  if (f->synth) { for (size_t q = 0; q < k; q++) buf[q] = (char)SimFile::synth_byte(f->synth_seed, (uint64_t)(f->pos + q)); }
  else memcpy(buf, f->data.data() + f->pos, k);
  f->pos += k;
  f->bytes_read += k;
  simsched::io_event(simsched::EV_IO_READ, f->id, (long)k);
  return (ssize_t)k;
}
static ssize_t sf_write(void *c, const char *buf, size_t n) {
  SimFile *f = (SimFile *)c;
  f->n_write_calls++;
  if (n == 0) return 0;
  size_t k = n;
  // no short writes: glibc's cookie write path does not retry a short count (it reports an error and drops the
  // rest), unlike its write path for real descriptors, so a short cookie write would be a fault stdio does not hide
  if (f->size_cap >= 0 && f->pos + (long)k > f->size_cap) {
    long room = f->size_cap - f->pos;
    f->cap_hit = true;
    if (room <= 0) { errno = ENOSPC; return 0; }   // fopencookie: 0 = error
    k = (size_t)room;
  }
  if (f->pos + k > f->data.size()) f->data.resize(f->pos + k);
  memcpy(f->data.data() + f->pos, buf, k);
  WriteRec w;
  w.off = f->pos;
  w.data.assign((const uint8_t *)buf, (const uint8_t *)buf + k);
  f->wlog.push_back(std::move(w));
  f->pos += k;
  f->bytes_written += k;
  simsched::io_event(simsched::EV_IO_WRITE, f->id, (long)k);
  return (ssize_t)k;
}
static int sf_seek(void *c, off64_t *off, int whence) {
  SimFile *f = (SimFile *)c;
  f->n_seek_calls++;
  long np;
  if (whence == SEEK_SET) np = *off;
  else if (whence == SEEK_CUR) np = f->pos + *off;
  else if (whence == SEEK_END) np = (f->synth ? f->synth_len : (long)f->data.size()) + *off;
  else return -1;
  if (np < 0) return -1;
  f->pos = np;
  *off = np;
  simsched::io_event(simsched::EV_IO_SEEK, f->id, np);
  return 0;
}
static int sf_close(void *c) {
  SimFile *f = (SimFile *)c;
  f->closed = true;
  return 0;
}

FILE *sim_fopen(SimFile *f, const char *mode, int bufmode) {
  cookie_io_functions_t io = {sf_read, sf_write, sf_seek, sf_close};
  f->pos = 0;
  f->closed = false;
  f->opened = true;
  if (mode[0] == 'w') f->data.clear();
  FILE *fp = fopencookie(f, mode, io);
  if (!fp) return NULL;
  if (bufmode == 0) setvbuf(fp, NULL, _IONBF, 0);
  else if (bufmode > 0) setvbuf(fp, NULL, _IOFBF, (size_t)bufmode);
  return fp;
}
