#include "harness.h"
extern const PropDef PROPS_STORAGE[] = {{nullptr, nullptr, nullptr, nullptr}};
extern const PropDef PROPS_HISTORY[] = {{nullptr, nullptr, nullptr, nullptr}};
