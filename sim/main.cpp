// simrun: batch worker, replay, scenario generation, minimisation.
#include "harness.h"
#include <cstdio>
#include <cstring>
#include <cstdlib>
#include <csignal>
#include <unistd.h>
#include <fcntl.h>
#include <sys/wait.h>
#include <sys/time.h>
#include <time.h>
#include <fstream>

extern const PropDef PROPS_PIPELINE[];
extern const PropDef PROPS_STORAGE[];
extern const PropDef PROPS_HISTORY[];
int litmus_main(FILE *rep);

const PropDef *find_prop(const std::string &id) {
  for (const PropDef *tab : {PROPS_PIPELINE, PROPS_STORAGE, PROPS_HISTORY})
    for (const PropDef *p = tab; p->id; p++)
      if (id == p->id) return p;
  return nullptr;
}

static FILE *rep = nullptr;          // report channel (the process's original stdout)
std::string g_outdir = ".";
static bool g_batch = false;
static long g_cur_idx = -1;
static int g_child_fd = -1;          // minimiser child: where to send the verdict
static std::string g_replay_out;     // replay mode: write the (decision-augmented) scenario here on violation

static double now_s() {
  struct timespec ts;
  clock_gettime(CLOCK_MONOTONIC, &ts);
  return ts.tv_sec + ts.tv_nsec * 1e-9;
}

static std::string sanitize(std::string s) {
  for (auto &c : s) if (c == '\n' || c == '\r') c = ' ';
  return s;
}

static Scn with_decisions(const Scn &s, const std::vector<int> *partial, int partial_slot) {
  Scn o = s;
  for (auto &kv : g_ctx.recorded)
    if (!o.dec.count(kv.first)) o.dec[kv.first] = kv.second;
  if (partial && !o.dec.count(partial_slot)) o.dec[partial_slot] = *partial;
  return o;
}

static std::string replay_path(const Scn &s) {
  return g_outdir + "/" + s.prop + "-" + build_variant() + "-" + s.tier + "-s" + std::to_string(s.seed) + "-i" + std::to_string(s.index) + ".replay";
}

static void emit_violation(const Scn &s, const std::string &cls, const std::string &sig, const std::string &detail, const std::vector<int> *partial, int pslot) {
  Scn o = with_decisions(s, partial, pslot);
  o.i["expect_violation"] = 1;
  o.b["expect_class"] = Bytes(cls.begin(), cls.end());
  if (g_child_fd >= 0) {
    std::string msg = "V\n" + cls + "\n" + scn_serialize(o);
    (void)!write(g_child_fd, msg.data(), msg.size());
    return;
  }
  std::string path = g_batch ? replay_path(s) : g_replay_out;
  if (!path.empty()) scn_save(path, o);
  fprintf(rep, "V %ld cls=%s sig=%s file=%s detail=%s\n", s.index, cls.c_str(), sig.empty() ? "-" : sig.c_str(), path.empty() ? "-" : path.c_str(), sanitize(detail).c_str());
  fflush(rep);
}

static const char *failname(int k) {
  switch (k) {
  case simsched::FAIL_DEADLOCK: return "deadlock";
  case simsched::FAIL_BUDGET: return "no-progress";
  case simsched::FAIL_UNJOINED: return "unjoined-threads";
  case simsched::FAIL_WALL: return "wall-clock";
  }
  return "?";
}

static void on_sched_fail(int kind, const char *detail) {
  if (g_ctx.hang_cb) { g_ctx.hang_cb(kind, detail); _exit(13); }
  const Scn *s = g_ctx.scn;
  std::string cls = std::string("hang-") + failname(kind) + "@" + g_ctx.opname;
  if (g_ctx.hang == HANG_MONITOR_ONLY) {
    const simsched::SchedResult &pr = simsched::current_partial();
    if (!pr.mon.empty()) {
      std::vector<int> partial = simsched::current_decisions();
      emit_violation(*s, "monitor-" + pr.mon[0].cls + "@" + g_ctx.opname, "", "step " + std::to_string(pr.mon[0].step) + ": " + pr.mon[0].detail + " (the operation then did not return: " + failname(kind) + ")", &partial, g_ctx.slot);
      _exit(10);
    }
  }
  if (g_ctx.hang == HANG_SKIP || g_ctx.hang == HANG_MONITOR_ONLY) {
    if (g_child_fd >= 0) { std::string m = "S\nbaseline-hang\n"; (void)!write(g_child_fd, m.data(), m.size()); _exit(12); }
    fprintf(rep, "H %ld skip baseline-%s detail=%s\n", s ? s->index : -1, cls.c_str(), sanitize(detail).c_str());
    fflush(rep);
    _exit(12);
  }
  std::vector<int> partial = simsched::current_decisions();
  emit_violation(*s, cls, "", std::string(g_ctx.opname) + " did not return: " + detail, &partial, g_ctx.slot);
  _exit(10);
}

static double g_wd_cpu_tick = 0;
static int g_wd_secs = 0, g_wd_elapsed = 0, g_wd_asleep = 0;
int g_wd_waiting_for_child = 0;   // set by code that sleeps in read()/waitpid() while a forked child does the work
static const int WD_TICK = 5;
static double proc_cpu_now() {
  struct timespec ts;
  clock_gettime(CLOCK_PROCESS_CPUTIME_ID, &ts);
  return ts.tv_sec + ts.tv_nsec * 1e-9;
}
void arm_watchdog(int secs) {
  g_wd_cpu_tick = proc_cpu_now();
  g_wd_secs = secs;
  g_wd_elapsed = 0;
  g_wd_asleep = 0;
  alarm(secs > 0 ? (secs < WD_TICK ? secs : WD_TICK) : 0);
}

static void on_alarm(int) {
  // Two very different things end here.  A CPU loop that never reaches a scheduling point burns the whole interval on the
  // processor: that is reported (as a candidate; the driver replays it).  A process that uses no CPU at all for two ticks
  // in a row is asleep: the simulated thread holding the baton waits inside a blocking primitive the simulator does not
  // own (a future, a semaphore, a pthread call, ...) whose owner is parked.  That is a limit of the simulation, not a
  // behaviour of the code under test, and is skipped and counted instead of being reported.
  double now = proc_cpu_now(), cpu = now - g_wd_cpu_tick;
  g_wd_cpu_tick = now;
  g_wd_elapsed += WD_TICK;
  if (!g_wd_waiting_for_child && cpu < 0.01 * WD_TICK) g_wd_asleep++; else g_wd_asleep = 0;
  if (g_wd_asleep >= 2) {
    if (g_ctx.hang_cb) _exit(15);
    if (g_child_fd >= 0) { std::string m = "S\nunsimulated-blocking\n"; (void)!write(g_child_fd, m.data(), m.size()); _exit(12); }
    const Scn *s = g_ctx.scn;
    fprintf(rep, "H %ld skip unsimulated-blocking detail=%s asleep in a primitive outside the simulation (no CPU used for %d s)\n", s ? s->index : -1, g_ctx.opname, 2 * WD_TICK);
    fflush(rep);
    _exit(12);
  }
  if (g_wd_elapsed < g_wd_secs) { alarm(WD_TICK); return; }
  on_sched_fail(simsched::FAIL_WALL, "wall-clock watchdog fired");
}

static void setup_io() {
  int fd = dup(1);
  rep = fdopen(fd, "w");
  if (!getenv("SIM_KEEP_STDOUT")) {
    int nul = open("/dev/null", O_WRONLY);
    dup2(nul, 1);   // wencry prints "\r\n" to std::cout even with echo off
    close(nul);
  }
  simsched::set_fail_handler(on_sched_fail);
  struct sigaction sa;
  memset(&sa, 0, sizeof sa);
  sa.sa_handler = on_alarm;
  sa.sa_flags = SA_RESTART;   // the watchdog ticks; a tick must not make a read() or sem_wait() of the run fail with EINTR
  sigaction(SIGALRM, &sa, NULL);
}

// Bring the process to its steady state before the first scenario: the first operation of a process initialises things that
// later ones find ready (iostream facet caches on the first formatted output, lazily built tables, allocator arenas), and in
// 'tsi' builds that shows in the trace.  A batch worker therefore executes a few small operations (all hash modes, echo on)
// before its first scenario, and so do `replay` and `minimise` - except for scenarios marked "fresh", which are about exactly
// that first operation and always run in a pristine forked child.  The warm-up is tried in a forked child first: if it does
// not complete there (the tree under test hangs or crashes on it), it is skipped - the scenarios will say what is wrong.
static void warm_up_ops() {
  for (int hm = 0; hm < 3; hm++) {
    SimFile fin, fenc, fdec;
    fin.data.assign(40 + hm, (uint8_t)(7 + hm));
    OpSpec e;
    e.kind = OP_ENC; e.T = 2; e.cmode = hm + 1; e.hmode = hm; e.echo = true;
    for (int i = 0; i < 16; i++) e.key[i] = (uint8_t)(i * 11 + hm);
    e.seedstr = {'w', (uint8_t)('0' + hm)};
    e.fin = &fin; e.fout = &fenc; e.fsize = fin.data.size();
    run_op(e);
    SimFile f2, f3;
    f2.data = fenc.data; f3.data = fenc.data;
    OpSpec v = e; v.kind = OP_VER; v.fin = &f2; v.fout = nullptr; v.fsize = f2.data.size();
    run_op(v);
    OpSpec d = e; d.kind = OP_DEC; d.fin = &f3; d.fout = &fdec; d.fsize = f3.data.size();
    run_op(d);
  }
}
static void process_warm_up() {
  fflush(rep);
  pid_t pid = fork();
  if (pid == 0) {
    simsched::set_fail_handler([](int, const char *) { _exit(9); });
    alarm(10);
    signal(SIGALRM, SIG_DFL);
    warm_up_ops();
    _exit(0);
  }
  int st = 0;
  if (pid < 0 || waitpid(pid, &st, 0) < 0 || !WIFEXITED(st) || WEXITSTATUS(st) != 0) return;
  warm_up_ops();
}

static int wall_limit() { return build_chunk_bytes() >= (1u << 20) ? 600 : 20; }

static Verdict run_scn(const PropDef *p, const Scn &s) {
  g_ctx = Ctx();
  g_ctx.scn = &s;
  arm_watchdog(wall_limit());
  Verdict v = p->run(s);
  alarm(0);
  return v;
}

static void dump_set(const std::string &path, const std::unordered_set<uint64_t> &st) {
  FILE *f = fopen(path.c_str(), "wb");
  if (!f) return;
  std::vector<uint64_t> v(st.begin(), st.end());
  if (!v.empty()) fwrite(v.data(), 8, v.size(), f);
  fclose(f);
}

static std::string json_escape(const std::string &s) {
  std::string o;
  for (char c : s) {
    if (c == '"' || c == '\\') { o.push_back('\\'); o.push_back(c); }
    else if ((unsigned char)c < 32) o += ' ';
    else o.push_back(c);
  }
  return o;
}

struct ChildOut { int kind = 0; /* 0 ok, 1 violation, 2 skip, 3 crash */ std::string cls; Scn scn; int status = 0; };

static ChildOut run_child(const Scn &s) {
  ChildOut o;
  int pfd[2];
  if (pipe(pfd) != 0) { o.kind = 3; return o; }
  fflush(rep);
  pid_t pid = fork();
  if (pid == 0) {
    close(pfd[0]);
    g_child_fd = pfd[1];
    const PropDef *p = find_prop(s.prop);
    Verdict v = run_scn(p, s);
    if (v.violation) { emit_violation(s, v.cls, v.sig, v.detail, nullptr, 0); _exit(1); }
    if (v.skipped) { std::string m = "S\n" + v.skip_reason + "\n"; (void)!write(pfd[1], m.data(), m.size()); _exit(3); }
    // also hand back the decisions of a clean run
    _exit(0);
  }
  close(pfd[1]);
  ChildWait child_wait;
  std::string buf;
  char tmp[65536];
  ssize_t n;
  while ((n = read(pfd[0], tmp, sizeof tmp)) > 0) buf.append(tmp, n);
  close(pfd[0]);
  int st = 0;
  waitpid(pid, &st, 0);
  o.status = st;
  if (buf.size() >= 2 && buf[0] == 'V') {
    o.kind = 1;
    size_t a = buf.find('\n', 2);
    o.cls = buf.substr(2, a - 2);
    scn_parse(buf.substr(a + 1), o.scn);
  } else if (buf.size() >= 2 && buf[0] == 'S') o.kind = 2;
  else if (WIFSIGNALED(st) || (WIFEXITED(st) && WEXITSTATUS(st) != 0 && WEXITSTATUS(st) != 3)) {
    o.kind = 3;
    o.cls = WIFSIGNALED(st) ? "crash-signal-" + std::to_string(WTERMSIG(st)) : "crash-exit-" + std::to_string(WEXITSTATUS(st));
  }
  return o;
}

static int cmd_batch(int argc, char **argv) {
  if (argc < 7) { fprintf(stderr, "usage: batch <prop> <tier> <seed> <worker> <nworkers> [--wall s] [--start idx] [--maxviol n] [--outdir d] [--limit n] [--trace-lines]\n"); return 2; }
  std::string prop = argv[2], tier = argv[3];
  uint64_t seed = strtoull(argv[4], 0, 10);
  long w = atol(argv[5]), N = atol(argv[6]);
  double wall = 1e9;
  long start = -1, maxviol = 3, limit = -1;
  bool trace_lines = false, fresh_only = false;
  for (int i = 7; i < argc; i++) {
    std::string a = argv[i];
    if (a == "--wall" && i + 1 < argc) wall = atof(argv[++i]);
    else if (a == "--start" && i + 1 < argc) start = atol(argv[++i]);
    else if (a == "--maxviol" && i + 1 < argc) maxviol = atol(argv[++i]);
    else if (a == "--outdir" && i + 1 < argc) g_outdir = argv[++i];
    else if (a == "--limit" && i + 1 < argc) limit = atol(argv[++i]);
    else if (a == "--trace-lines") trace_lines = true;
    else if (a == "--fresh-only") fresh_only = true;   // this worker never executes a scenario itself: it only forks pristine children
  }
  const PropDef *p = find_prop(prop);
  if (!p) { fprintf(stderr, "unknown property %s\n", prop.c_str()); return 2; }
  g_batch = true;
  long plan = p->plan(tier);
  if (limit >= 0 && limit < plan) plan = limit;
  double t0 = now_s();
  long viols = 0, done = 0, last = -1, sig_emitted = 0;
  bool wall_stop = false;
  if (!fresh_only && prop != "C15") process_warm_up();   // C15's worker never executes an operation itself: its forked children must start pristine
  for (long idx = w; idx < plan; idx += N) {
    if (idx <= start) continue;
    if (now_s() - t0 > wall) { wall_stop = true; break; }
    Scn s;
    p->gen(tier, seed, idx, s);
    // scenarios marked "fresh" need a process that has executed nothing before: they are left to the --fresh-only
    // workers, which fork a child per scenario and never run anything themselves
    if ((s.geti("fresh") != 0) != fresh_only) continue;
    fprintf(rep, "S %ld\n", idx);
    fflush(rep);
    g_cur_idx = idx;
    Verdict v;
    if (s.geti("fresh")) {
      // the scenario's operations are the first ones of a pristine process (lazily initialised process-wide state is
      // initialised under the explored schedule, not by some earlier scenario of this worker)
      ChildOut o = run_child(s);
      g_stats.add("probe.scenarios_in_fresh_process", 1);
      if (o.kind == 1) {
        v.violation = true; v.cls = o.cls; v.detail = "(scenario executed in a forked, pristine process; see the replay file)";
        if (!o.scn.prop.empty()) g_ctx.recorded = o.scn.dec;
      } else if (o.kind == 3) {
        v.violation = true; v.cls = o.cls; v.detail = "the forked, pristine process that executed the scenario died";
      } else if (o.kind == 2) { v.skipped = true; v.skip_reason = "skipped-in-fresh-process"; }
      else { v.nontrivial = true; v.case_hash = Rng::mix((uint64_t)idx, 0xF4E5); }
    } else
      v = run_scn(p, s);
    done++;
    last = idx;
    g_stats.add("runs", 1);
    if (trace_lines) fprintf(rep, "T %ld %016llx %s\n", idx, (unsigned long long)v.trace_hash, v.violation ? v.cls.c_str() : (v.skipped ? "skip" : "ok"));
    if (v.skipped) { g_stats.add("skipped." + v.skip_reason, 1); g_stats.add("skipped", 1); continue; }
    if (v.nontrivial) g_stats.distinct_cases.insert(v.case_hash);
    if (g_stats.samples.size() < 3 && v.nontrivial && (done == 1 || done % 97 == 0)) g_stats.samples.push_back(scn_summary(s));
    if (v.violation) {
      if (!v.sig.empty()) {
        // carries the signature of a possible known finding: the driver decides; keep exploring
        g_stats.add("violations_with_signature", 1);
        if (sig_emitted++ < 12) emit_violation(s, v.cls, v.sig, v.detail, nullptr, 0);
        continue;
      }
      emit_violation(s, v.cls, v.sig, v.detail, nullptr, 0);
      g_stats.add("violations", 1);
      if (++viols >= maxviol) break;
    }
  }
  // statistics
  std::string base = g_outdir + "/" + prop + "-" + build_variant() + "-w" + std::to_string(w) + "-" + std::to_string((long)getpid());
  dump_set(base + ".cases", g_stats.distinct_cases);
  dump_set(base + ".traces", g_stats.distinct_traces);
  dump_set(base + ".sigs", g_stats.distinct_sigs);
  std::string js = "{";
  js += "\"variant\":\"" + std::string(build_variant()) + "\",\"worker\":" + std::to_string(w) + ",\"plan\":" + std::to_string(plan) + ",\"done\":" + std::to_string(done) +
        ",\"last\":" + std::to_string(last) + ",\"wall_stop\":" + (wall_stop ? "true" : "false") + ",\"wall_s\":" + std::to_string(now_s() - t0) + ",\"setbase\":\"" + json_escape(base) + "\",\"counters\":{";
  bool first = true;
  for (auto &kv : g_stats.c) { js += std::string(first ? "" : ",") + "\"" + json_escape(kv.first) + "\":" + std::to_string(kv.second); first = false; }
  js += "},\"samples\":[";
  first = true;
  for (auto &sm : g_stats.samples) { js += std::string(first ? "" : ",") + "\"" + json_escape(sm) + "\""; first = false; }
  js += "]}";
  fprintf(rep, "STATS %s\n", js.c_str());
  fflush(rep);
  return viols ? 11 : 0;
}

static int cmd_replay(int argc, char **argv) {
  if (argc < 3) return 2;
  Scn s;
  if (!scn_load(argv[2], s)) { fprintf(stderr, "cannot parse replay file %s\n", argv[2]); return 2; }
  for (int i = 3; i < argc; i++) if (std::string(argv[i]) == "--out" && i + 1 < argc) g_replay_out = argv[++i];
  const PropDef *p = find_prop(s.prop);
  if (!p) { fprintf(stderr, "unknown property %s\n", s.prop.c_str()); return 2; }
  if (!s.geti("fresh") && s.prop != "C15") process_warm_up();
  Verdict v = run_scn(p, s);
  if (v.violation) {
    emit_violation(s, v.cls, v.sig, v.detail, nullptr, 0);
    fprintf(rep, "RESULT violation cls=%s trace=%016llx\n", v.cls.c_str(), (unsigned long long)v.trace_hash);
    fflush(rep);
    return 1;
  }
  fprintf(rep, "RESULT %s trace=%016llx %s\n", v.skipped ? "skip" : "ok", (unsigned long long)v.trace_hash, v.skip_reason.c_str());
  fflush(rep);
  return v.skipped ? 3 : 0;
}

// ---------------------------------------------------------------- minimisation (fork per candidate)

static long g_min_runs = 0;
static bool still_fails(const Scn &cand, const std::string &cls, Scn *with_dec = nullptr) {
  g_min_runs++;
  ChildOut o = run_child(cand);
  bool same = (o.kind == 1 || o.kind == 3) && o.cls == cls;
  if (same && with_dec && o.kind == 1) *with_dec = o.scn;
  return same;
}

static int cmd_minimise(int argc, char **argv) {
  if (argc < 4) return 2;
  Scn s;
  if (!scn_load(argv[2], s)) return 2;
  std::string cls(s.getb("expect_class").begin(), s.getb("expect_class").end());
  if (!s.geti("fresh") && s.prop != "C15") process_warm_up();   // the candidates run in forked children of this process
  ChildOut first = run_child(s);
  if (!((first.kind == 1 || first.kind == 3))) { fprintf(rep, "MINIMISE not-reproducible\n"); return 3; }
  if (cls.empty()) cls = first.cls;
  if (first.cls != cls) { fprintf(rep, "MINIMISE class-changed %s -> %s\n", cls.c_str(), first.cls.c_str()); cls = first.cls; }
  Scn best = s;
  double t0 = now_s();
  auto budget_ok = [&]() { return now_s() - t0 < 60 && g_min_runs < 3000; };
  // 1. scenario shrinking with the schedule regenerated from its seed (drop explicit decisions first if that keeps the failure)
  {
    Scn c = best;
    c.dec.clear();
    if (still_fails(c, cls)) best = c;
  }
  bool have_dec = !best.dec.empty();
  auto try_set = [&](const std::string &k, long val) {
    if (!budget_ok() || !best.has(k) || best.geti(k) == val) return false;
    Scn c = best;
    c.i[k] = val;
    if (!have_dec) c.dec.clear();
    if (still_fails(c, cls)) { best = c; return true; }
    return false;
  };
  for (int round = 0; round < 3 && budget_ok(); round++) {
    bool progress = false;
    // faults / ops: greedy removal
    for (size_t k = 0; k < best.faults.size() && best.faults.size() > 1 && budget_ok();) {
      Scn c = best;
      c.faults.erase(c.faults.begin() + k);
      if (still_fails(c, cls)) { best = c; progress = true; } else k++;
    }
    for (size_t k = 0; k < best.ops.size() && best.ops.size() > 1 && budget_ok();) {
      Scn c = best;
      c.ops.erase(c.ops.begin() + k);
      if (still_fails(c, cls)) { best = c; progress = true; } else k++;
    }
    for (const char *k : {"sio", "sw0", "sw1", "sw2", "ptype", "cm", "hm"}) progress |= try_set(k, 0);
    for (const char *k : {"inb", "outb"}) progress |= try_set(k, -1);
    // T: smaller
    if (best.has("T")) for (long t = 1; t < best.geti("T"); t++) if (try_set("T", t)) { progress = true; break; }
    // len: towards 0 by halving, then linear steps of one block
    if (best.has("len")) {
      long len = best.geti("len");
      for (long cand : {0L, len / 4, len / 2, len - 64, len - 16, len - 1})
        if (cand >= 0 && cand < best.geti("len") && try_set("len", cand)) { progress = true; break; }
    }
    if (!progress) break;
  }
  // 2. obtain the decisions of the failing run and minimise them
  Scn wd;
  if (still_fails(best, cls, &wd) && !wd.prop.empty()) {
    Scn cur = wd;   // carries explicit decisions for every slot that ran
    if (still_fails(cur, cls)) {
      best = cur;
      std::vector<int> slots;
      for (auto &kv : best.dec) slots.push_back(kv.first);
      for (int slot : slots) {   // (iterate over a copy of the keys: `best` is replaced inside the loop)
        // all-default
        {
          Scn c = best;
          c.dec[slot].assign(1, -1);
          if (budget_ok() && still_fails(c, cls)) { best = c; continue; }
        }
        // shortest failing prefix (binary search, then verify)
        size_t lo = 0, hi = best.dec[slot].size();
        while (lo < hi && budget_ok()) {
          size_t mid = (lo + hi) / 2;
          Scn c = best;
          c.dec[slot].resize(mid);
          if (still_fails(c, cls)) hi = mid; else lo = mid + 1;
        }
        {
          Scn c = best;
          c.dec[slot].resize(hi);
          if (hi < best.dec[slot].size() && still_fails(c, cls)) best = c;
        }
        // replace chunks of decisions by "default"
        for (size_t chunk = std::max<size_t>(1, best.dec[slot].size() / 2); chunk >= 1 && budget_ok(); chunk /= 2) {
          for (size_t a = 0; a < best.dec[slot].size() && budget_ok(); a += chunk) {
            Scn c = best;
            bool changed = false;
            for (size_t k = a; k < a + chunk && k < c.dec[slot].size(); k++)
              if (c.dec[slot][k] != -1) { c.dec[slot][k] = -1; changed = true; }
            if (changed && still_fails(c, cls)) best = c;
          }
          if (chunk == 1) break;
        }
      }
    }
  }
  best.i["expect_violation"] = 1;
  best.b["expect_class"] = Bytes(cls.begin(), cls.end());
  best.i["minimised"] = 1;
  scn_save(argv[3], best);
  long npre = 0;
  for (auto &kv : best.dec) for (int v : kv.second) if (v != -1) npre++;
  fprintf(rep, "MINIMISE ok cls=%s runs=%ld explicit_decisions=%ld faults=%zu ops=%zu\n", cls.c_str(), g_min_runs, npre, best.faults.size(), best.ops.size());
  return 0;
}

int main(int argc, char **argv) {
  if (argc < 2) { fprintf(stderr, "usage: simrun batch|replay|gen|plan|minimise|info|selftest ...\n"); return 2; }
  setup_io();
  std::string cmd = argv[1];
  if (cmd == "info") {
    fprintf(rep, "variant=%s chunk=%zu hash_refill=%zu\n", build_variant(), build_chunk_bytes(), build_hash_refill_bytes());
    return 0;
  }
  if (cmd == "selftest") {
    std::string err;
    if (!ref_selftest(err)) { fprintf(rep, "reference self-test FAILED: %s\n", err.c_str()); return 1; }
    fprintf(rep, "reference self-test ok (FIPS-197, SP 800-38A, RFC 2202, FIPS 180)\n");
    return 0;
  }
  if (cmd == "litmus") return litmus_main(rep);
  if (cmd == "plan" && argc >= 4) {
    const PropDef *p = find_prop(argv[2]);
    if (!p) return 2;
    fprintf(rep, "%ld\n", p->plan(argv[3]));
    return 0;
  }
  if (cmd == "gen" && argc >= 6) {
    const PropDef *p = find_prop(argv[2]);
    if (!p) return 2;
    Scn s;
    p->gen(argv[3], strtoull(argv[4], 0, 10), atol(argv[5]), s);
    fputs(scn_serialize(s).c_str(), rep);
    return 0;
  }
  if (cmd == "batch") return cmd_batch(argc, argv);
  if (cmd == "replay") return cmd_replay(argc, argv);
  if (cmd == "minimise") return cmd_minimise(argc, argv);
  fprintf(stderr, "unknown command\n");
  return 2;
}
