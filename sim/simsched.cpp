// Deterministic scheduler implementation.  Compiled WITH the shim header (so that the
// out-of-line members of std::sim_mutex etc. are declared) but this file itself only
// uses POSIX semaphores and <thread> through the name real_thread to avoid the macros.
#include "simsched.h"
#include <semaphore.h>
#include <sys/single_threaded.h>
#include <pthread.h>
#include <unordered_map>
#include <cstring>
#include <cstdio>
#include <cstdlib>
#include <cerrno>
#include <algorithm>

// The shim defines these macros; inside this file we want the real things.
#undef mutex
#undef condition_variable
#undef thread
#undef atomic
#undef atomic_flag
#undef recursive_mutex
#undef timed_mutex
#undef recursive_timed_mutex
#undef shared_mutex
#undef shared_timed_mutex
#undef condition_variable_any
#undef once_flag
#undef future
#undef shared_future
#undef promise
#undef packaged_task
#undef async
#undef call_once
#undef yield
#undef sleep_for
#undef sleep_until

namespace simsched {

static const int MAXT = 48;

enum TState { T_RUNNABLE, T_BLOCKED_MUTEX, T_BLOCKED_CV, T_BLOCKED_JOIN, T_FINISHED };

struct ThreadRec {
  int id = -1;
  TState st = T_RUNNABLE;
  const void *blocked_on = nullptr;
  bool timed = false, timed_out = false, woke_spurious = false;
  bool started = false, detached = false;
  sem_t sem;
  std::thread real;
  std::function<void()> fn;
  uint32_t vc[MAXT];
  long prio = 0;
  int open_buf = -1;   // monitor: buffer this (worker) thread is between access and next sched point on
  const char *stack_lo = nullptr, *stack_hi = nullptr;   // 'tsi': bounds of this thread's own stack
  long last_run = 0;   // step at which this thread was last given the processor
  int spin = 0;        // consecutive retry-like scheduling points (atomic operation, try_lock, yield) without any other synchronisation
  int hot_trail = 0;   // 'tsi': number of following accesses of this thread that are scheduling points whatever they touch
};

struct BufMon {
  bool worker_phase = false;
  int loads_ended = 0;
  int owner_tid = -1;
  int io_open = 0;            // 1 = a load of this buffer is in progress, 2 = an export
  std::string pending;        // worker access outside its window, waiting to see whether the I/O thread uses the buffer again
  uint32_t last_epoch[MAXT];
  BufMon() { memset(last_epoch, 0, sizeof(last_epoch)); }
};

struct Session {
  bool active = false;
  SchedConfig cfg;
  Rng rng;
  std::vector<ThreadRec *> th;
  ThreadRec *cur = nullptr;
  SchedResult res;
  size_t replay_pos = 0;
  int spurious_left = 0;
  int timeouts_left = 0;
  std::unordered_map<const void *, int> mtx_id, cv_id;
  std::unordered_map<const void *, std::vector<uint32_t>> atom_vc;   // synchronisation carried by std::atomic objects
  std::vector<std::vector<uint32_t>> mtx_vc;
  std::vector<uint64_t> obj_hash;       // sync signature per object (mutexes then buffers)
  // monitor
  const char *buf_base = nullptr;
  const char *ctrl_base = nullptr;
  unsigned long nbuf = 0;
  std::vector<BufMon> bm;
  int io_tid = -1;
  std::vector<long> pct_points;
  long low_prio = -1;
  int last_kind = 0;
  bool in_atomic = false;   // between sim_atomic_event and sim_atomic_after of the running thread ('tsi': the callback of the operation itself must not count again)
  long spin_steps = 0;   // steps that were retries (see ThreadRec::spin); budgeted separately
  bool enum_spur_done = false;
};

static Session S;

static void note_stack(ThreadRec *t) {
  pthread_attr_t a;
  if (pthread_getattr_np(pthread_self(), &a) == 0) {
    void *lo = nullptr; size_t sz = 0;
    pthread_attr_getstack(&a, &lo, &sz);
    pthread_attr_destroy(&a);
    t->stack_lo = (const char *)lo; t->stack_hi = (const char *)lo + sz;
  }
}

// ---- 'tsi' builds: the repository is compiled with -fsanitize=thread but linked against the callbacks below instead of
// libtsan.  Every instrumented load/store of repository code arrives here BEFORE it happens (DESIGN.md 10.16).
struct MemShadow { uint8_t first = 255, wtid = 255, rtid = 255, flags = 0, ro_reads = 0; uint32_t wclk = 0, rclk = 0; };
extern "C" char __data_start, _end;   // writable globals of the executable: [.data, .bss)
static std::unordered_map<uintptr_t, MemShadow> g_shadow;
static thread_local bool g_in_mem = false;
static thread_local bool tl_sim = false;   // this real thread is a simulated thread that has been started and has not exited yet
// true while simulator code runs (exactly one thread runs at a time, so one flag suffices): instrumented inline code that
// the simulator itself executes (std::vector, std::string ... share their instantiations with the repository's objects)
// must not be taken for repository memory traffic, let alone re-enter the scheduler
static bool g_busy = false;
struct Busy { bool prev; Busy() : prev(g_busy) { g_busy = true; } ~Busy() { g_busy = prev; } };
static FailHandler g_fail = nullptr;
static bool (*g_is_ready)(const void *) = nullptr;
static unsigned long g_sizeof_iobuffer = 0;

const char *ev_name(int k) {
  static const char *n[] = {"?", "lock_req", "lock_acq", "unlock", "cv_wait", "cv_wake", "notify_one", "notify_all",
                            "thread_create", "thread_start", "thread_exit", "join_req", "join_done",
                            "look", "relook", "load_begin", "load_end", "export_begin", "export_end", "group",
                            "spy_enter", "spy_exit", "spurious", "io_read", "io_write", "io_seek", "trylock", "timeout", "atomic", "mem", "yield", "cv_enter"};
  return (k > 0 && k < EV_KIND_MAX) ? n[k] : "?";
}
const char *strategy_name(int s) {
  static const char *n[] = {"rr", "uniform", "sticky", "pct", "starve", "hookbias", "enum"};
  return (s >= 0 && s < ST_MAX) ? n[s] : "?";
}

void set_fail_handler(FailHandler h) { g_fail = h; }
bool in_session() { return S.active; }
int current_tid() { return (S.active && S.cur) ? S.cur->id : 0; }
const SchedResult &current_partial() { return S.res; }
const std::vector<int> &current_decisions() { return S.res.decisions; }
void monitor_set_ready_probe(bool (*f)(const void *)) { g_is_ready = f; }
void monitor_set_bufsize(unsigned long n) { g_sizeof_iobuffer = n; }

static void sem_wait_retry(sem_t *s) {
  while (sem_wait(s) != 0 && errno == EINTR) {}
}

static std::string blocked_table() {
  std::string out;
  char buf[160];
  for (ThreadRec *t : S.th) {
    const char *st = "?";
    int obj = -1;
    switch (t->st) {
    case T_RUNNABLE: st = "runnable"; break;
    case T_BLOCKED_MUTEX: st = "blocked-on-mutex"; { auto it = S.mtx_id.find(t->blocked_on); obj = it == S.mtx_id.end() ? -1 : it->second; } break;
    case T_BLOCKED_CV: st = "waiting-on-cv"; { auto it = S.cv_id.find(t->blocked_on); obj = it == S.cv_id.end() ? -1 : it->second; } break;
    case T_BLOCKED_JOIN: st = "joining-thread"; obj = ((ThreadRec *)t->blocked_on)->id; break;
    case T_FINISHED: st = "finished"; break;
    }
    snprintf(buf, sizeof buf, "t%d:%s%s%d ", t->id, st, obj >= 0 ? "#" : "", obj >= 0 ? obj : 0);
    out += buf;
  }
  return out;
}

[[noreturn]] static void fail(int kind, const std::string &detail) {
  S.res.fail = kind;
  S.res.fail_detail = detail;
  if (g_fail) g_fail(kind, detail.c_str());
  fprintf(stderr, "simsched: unhandled failure %d: %s\n", kind, detail.c_str());
  _exit(70);
}

static void mon_violation(const std::string &cls, const std::string &detail) {
  if (S.res.mon.size() < 8) S.res.mon.push_back({cls, detail, (uint32_t)S.res.steps});
}

static FILE *g_dump = nullptr;   // debugging aid: SIM_DUMP_EVENTS=<file> appends every recorded event (never set by the checks)
static void record(int kind, int obj, long a) {
  ThreadRec *me = S.cur;
  S.res.steps++;
  if (g_dump) fprintf(g_dump, "%ld t%d %s obj=%d a=%ld\n", S.res.steps, me->id, ev_name(kind), obj, a);
  Event e{(uint32_t)S.res.steps, (uint8_t)me->id, (uint8_t)kind, obj, a};
  if (S.cfg.keep_events && kind != EV_MEM) S.res.events.push_back(e);
  uint64_t h = S.res.trace_hash;
  h = fnv1a_u64(h, ((uint64_t)me->id << 56) ^ ((uint64_t)kind << 48) ^ ((uint64_t)(uint32_t)obj << 16));
  h = fnv1a_u64(h, (uint64_t)a);
  S.res.trace_hash = h;
  S.last_kind = kind;
  if (kind == EV_ATOMIC || kind == EV_TRYLOCK || kind == EV_YIELD) { if (me->spin++ > 0) S.spin_steps++; }
  else if (kind != EV_MEM && kind != EV_IO_READ && kind != EV_IO_WRITE && kind != EV_IO_SEEK) me->spin = 0;
}

static int next_mtx_id = 0, next_cv_id = 0;
static int mutex_id(const void *p) {
  auto it = S.mtx_id.find(p);
  if (it != S.mtx_id.end()) return it->second;
  int id = next_mtx_id++;
  S.mtx_id.emplace(p, id);
  if ((int)S.mtx_vc.size() <= id) S.mtx_vc.resize(id + 1);
  S.mtx_vc[id].assign(MAXT, 0);
  return id;
}
static int condvar_id(const void *p) {
  auto it = S.cv_id.find(p);
  if (it != S.cv_id.end()) return it->second;
  int id = next_cv_id++;
  S.cv_id.emplace(p, id);
  return id;
}
static void sig_obj(int slot, uint64_t v) {
  if ((int)S.obj_hash.size() <= slot) S.obj_hash.resize(slot + 1, FNV_INIT);
  S.obj_hash[slot] = fnv1a_u64(S.obj_hash[slot], v);
}

// ---------------------------------------------------------------- choosing who runs

static bool is_hook_kind(int k) {
  return k == EV_LOOK || k == EV_RELOOK || k == EV_LOAD_BEGIN || k == EV_LOAD_END || k == EV_EXPORT_BEGIN ||
         k == EV_SPY_ENTER || k == EV_THREAD_CREATE || k == EV_THREAD_START;
}

static ThreadRec *by_id(int id) {
  return (id >= 0 && id < (int)S.th.size()) ? S.th[id] : nullptr;
}

static void wake_spurious(ThreadRec *t) {
  t->st = T_RUNNABLE;
  t->blocked_on = nullptr;
  t->woke_spurious = true;
  S.spurious_left--;
  S.res.spurious_fired++;
  // trace entry attributed to the waking decision (current thread's slot)
  record(EV_SPURIOUS, t->id, 0);
}
static void fire_timeout(ThreadRec *t) {
  t->st = T_RUNNABLE;
  t->blocked_on = nullptr;
  t->timed_out = true;
  S.res.timeouts_fired++;
  record(EV_TIMEOUT, t->id, 0);
}

// Decision encoding (SchedResult::decisions / SchedConfig::replay):
//   v >= 0        : run thread v next (recorded only when >= 2 candidates existed)
//   v == -1       : default policy (continue current if runnable, else lowest id)
//   v <= -2, > -1000 : spurious wake-up of thread (-v - 2) before choosing
//   v <= -1000    : timeout of timed waiter thread (-v - 1000)
static ThreadRec *default_pick(const std::vector<ThreadRec *> &cand, ThreadRec *cur, bool cur_runnable) {
  if (cur_runnable) return cur;
  return cand[0];
}

// returns the next thread to run, or nullptr if nobody can run
static ThreadRec *choose(bool cur_runnable, bool fair = false) {
  ThreadRec *cur = S.cur;
  std::vector<ThreadRec *> cand, cvw, timedw;
  for (ThreadRec *t : S.th) {
    if (t->st == T_RUNNABLE && (t != cur || cur_runnable)) cand.push_back(t);
    else if (t->st == T_BLOCKED_CV) (t->timed ? timedw : cvw).push_back(t);
  }
  if ((long)cand.size() > S.res.probe_max_runnable) S.res.probe_max_runnable = cand.size();

  if (S.cfg.use_replay) {
    // consume wake-up / timeout entries
    while (S.replay_pos < S.cfg.replay.size() && S.cfg.replay[S.replay_pos] <= -2) {
      int v = S.cfg.replay[S.replay_pos++];
      if (v > -1000) {
        ThreadRec *t = by_id(-v - 2);
        if (t && t->st == T_BLOCKED_CV && !t->timed && S.spurious_left > 0) {
          wake_spurious(t);
          S.res.decisions.push_back(v);
          cand.push_back(t);
        }
      } else {
        ThreadRec *t = by_id(-v - 1000);
        if (t && t->st == T_BLOCKED_CV && t->timed) {
          fire_timeout(t);
          S.res.decisions.push_back(v);
          cand.push_back(t);
        }
      }
    }
  } else if (S.cfg.strategy == ST_ENUM) {
    if (S.cfg.enum_spur_k >= 0 && S.res.decision_points >= S.cfg.enum_spur_k && !S.enum_spur_done && !cvw.empty()) {
      ThreadRec *t = cvw[(size_t)S.cfg.enum_spur_c % cvw.size()];
      S.enum_spur_done = true;
      S.spurious_left = 1;
      wake_spurious(t);
      S.res.decisions.push_back(-(t->id) - 2);
      cand.push_back(t);
    }
  } else {
    if (S.spurious_left > 0 && !cvw.empty() && S.rng.chance(S.cfg.p_spurious)) {
      ThreadRec *t = cvw[S.rng.below(cvw.size())];
      wake_spurious(t);
      S.res.decisions.push_back(-(t->id) - 2);
      cand.push_back(t);
    }
    if (!timedw.empty() && S.timeouts_left > 0 && S.rng.chance(0.1)) {
      S.timeouts_left--;
      ThreadRec *t = timedw[S.rng.below(timedw.size())];
      fire_timeout(t);
      S.res.decisions.push_back(-(t->id) - 1000);
      cand.push_back(t);
    }
  }
  if (cand.empty()) {
    // time passes: a timed waiter's time-out fires when nothing else can happen
    std::vector<ThreadRec *> tw;
    for (ThreadRec *t : S.th) if (t->st == T_BLOCKED_CV && t->timed) tw.push_back(t);
    if (tw.empty()) return nullptr;
    fire_timeout(tw[0]);
    S.res.decisions.push_back(-(tw[0]->id) - 1000);
    return tw[0];
  }
  std::sort(cand.begin(), cand.end(), [](ThreadRec *a, ThreadRec *b) { return a->id < b->id; });
  if (cand.size() == 1) return cand[0];

  bool cur_in = cur_runnable && cur->st == T_RUNNABLE;
  ThreadRec *pick = nullptr;
  long dix = S.res.decision_points++;
  if (S.cfg.use_replay) {
    int v = -1;
    if (S.replay_pos < S.cfg.replay.size()) v = S.cfg.replay[S.replay_pos++];
    if (v >= 0) {
      for (ThreadRec *t : cand) if (t->id == v) pick = t;
    }
    if (!pick) pick = default_pick(cand, cur, cur_in);
  } else if (fair) {
    // the current thread gives way (yield, sleep, or the fairness rule for polling loops): whoever has waited longest
    // runs, whatever the strategy, so that every runnable thread gets the processor again and again
    pick = cand[0];
    for (ThreadRec *t : cand) if (t->last_run < pick->last_run) pick = t;
  } else {
    switch (S.cfg.strategy) {
    case ST_RR: {
      if (cur_in) pick = cur;
      else {
        pick = cand[0];
        for (ThreadRec *t : cand) if (t->id > cur->id) { pick = t; break; }
      }
      break;
    }
    case ST_UNIFORM: pick = cand[S.rng.below(cand.size())]; break;
    case ST_STICKY: {
      if (cur_in && S.rng.chance(S.cfg.sticky_p)) pick = cur;
      else pick = cand[S.rng.below(cand.size())];
      break;
    }
    case ST_HOOKBIAS: {
      double stay = is_hook_kind(S.last_kind) ? 0.3 : 0.95;
      if (cur_in && S.rng.chance(stay)) pick = cur;
      else {
        std::vector<ThreadRec *> others;
        for (ThreadRec *t : cand) if (t != cur) others.push_back(t);
        pick = others.empty() ? cand[0] : others[S.rng.below(others.size())];
      }
      break;
    }
    case ST_PCT: {
      for (long p : S.pct_points) if (p == S.res.steps && cur_in) cur->prio = S.low_prio--;
      pick = cand[0];
      for (ThreadRec *t : cand) if (t->prio > pick->prio) pick = t;
      break;
    }
    case ST_ENUM: {
      // canonical choice, except at the enumerated decision indices, where another runnable thread is forced
      ThreadRec *def = nullptr;
      if (cur_in) def = cur;
      else {
        def = cand[0];
        for (ThreadRec *t : cand) if (t->id > cur->id) { def = t; break; }
      }
      pick = def;
      for (int q = 0; q < 2; q++)
        if (S.cfg.enum_k[q] == dix) {
          std::vector<ThreadRec *> others;
          for (ThreadRec *t : cand) if (t != def) others.push_back(t);
          if (!others.empty()) pick = others[(size_t)S.cfg.enum_c[q] % others.size()];
        }
      break;
    }
    case ST_STARVE: {
      std::vector<ThreadRec *> c2;
      for (ThreadRec *t : cand) if (t->id != S.cfg.starve_tid) c2.push_back(t);
      if (c2.empty()) c2 = cand;
      bool cin = false;
      for (ThreadRec *t : c2) if (t == cur && cur_in) cin = true;
      if (cin && S.rng.chance(0.7)) pick = cur;
      else pick = c2[S.rng.below(c2.size())];
      break;
    }
    default: pick = cand[0];
    }
  }
  S.res.decisions.push_back(pick->id);
  if (cur_in && pick != cur) S.res.preemptions++;
  return pick;
}

static void switch_to(ThreadRec *next) {
  ThreadRec *me = S.cur;
  if (next == me) return;
  S.res.switches++;
  next->last_run = S.res.steps;
  S.cur = next;
  sem_post(&next->sem);
  sem_wait_retry(&me->sem);
  g_busy = true;   // resumed in the middle of a simulator entry point
}

static void check_budget() {
  // polling loops are legal and their length depends on how long the scheduler keeps the awaited thread away: repeated
  // retries get a budget of their own (64 times larger), so that only polling that never ends is reported
  if (S.res.steps - S.spin_steps > S.cfg.step_budget || S.spin_steps > 64 * S.cfg.step_budget)
    fail(FAIL_BUDGET, "step budget exceeded (" + std::to_string(S.cfg.step_budget) + "): " + blocked_table());
}

// scheduling point for a thread that stays runnable
static const int SPIN_LIMIT = 64;
static void yield_point() {
  check_budget();
  // fairness: a thread that only retries (polls an atomic, try_lock, yield) cannot keep the processor for ever on a real
  // machine; after SPIN_LIMIT such points in a row another runnable thread gets its turn whatever the strategy says
  bool fair = S.cur->spin > SPIN_LIMIT;
  if (fair) S.cur->spin = 0;
  ThreadRec *n = choose(!fair, fair);
  if (n) switch_to(n);
}

// this_thread::yield / sleep: like yield_point, but another runnable thread is preferred
static void yield_away() {
  check_budget();
  ThreadRec *n = choose(false, true);
  if (n) switch_to(n);
}

// current thread has set its state to blocked; run somebody else
static void yield_blocked() {
  check_budget();
  ThreadRec *me = S.cur;
  ThreadRec *n = choose(false);
  if (!n) fail(FAIL_DEADLOCK, "no runnable thread: " + blocked_table());
  switch_to(n);
  (void)me;
}

static void close_interval(ThreadRec *t) { t->open_buf = -1; }

// ---------------------------------------------------------------- vector clocks

static void vc_join(uint32_t *dst, const uint32_t *src) {
  for (int i = 0; i < MAXT; i++) if (src[i] > dst[i]) dst[i] = src[i];
}

// ---------------------------------------------------------------- monitor (C14)

static int buf_index(const void *p) {
  if (!S.buf_base || !g_sizeof_iobuffer) return -1;
  long off = (const char *)p - S.buf_base;
  if (off < 0) return -1;
  long idx = off / (long)g_sizeof_iobuffer;
  if ((unsigned long)idx >= S.nbuf) return -1;
  return (int)idx;
}

static void mon_access(int b, bool io, const char *what) {
  if (b < 0 || b >= (int)S.bm.size()) return;
  ThreadRec *me = S.cur;
  BufMon &m = S.bm[b];
  // (ii) happens-before: every earlier access by another thread must be ordered before this one
  for (int u = 0; u < (int)S.th.size() && u < MAXT; u++) {
    if (u == me->id) continue;
    if (m.last_epoch[u] > me->vc[u]) {
      mon_violation("hb", std::string(what) + " of buffer " + std::to_string(b) + " by t" + std::to_string(me->id) +
                              " not ordered after access by t" + std::to_string(u));
      break;
    }
  }
  m.last_epoch[me->id] = me->vc[me->id];
  sig_obj(1000 + b, ((uint64_t)me->id << 8) | (io ? 1 : 0));
}

static void mon_worker_access(int b, const char *what) {
  if (b < 0 || b >= (int)S.bm.size()) return;
  ThreadRec *me = S.cur;
  BufMon &m = S.bm[b];
  if (m.loads_ended == 0) S.res.probe_look_before_first_load++;
  if (!m.worker_phase) {
    std::string d = std::string("worker ") + what + " of buffer " + std::to_string(b) + " by t" + std::to_string(me->id);
    if (m.io_open)
      mon_violation("phase", d + " while the I/O thread is in the middle of " + (m.io_open == 1 ? "filling" : "flushing") + " it");
    else if (m.pending.empty())
      // outside the worker's window, but no I/O is in progress: this only matters if the I/O thread uses the buffer
      // again (a buffer that was retired for good is nobody's any more) - decided at the next I/O begin on this buffer
      m.pending = d + (m.loads_ended == 0 ? " before the I/O thread filled it" : " after it was handed back") + " (step " + std::to_string(S.res.steps) + ")";
  }
  if (m.owner_tid == -1) m.owner_tid = me->id;
  else if (m.owner_tid != me->id)
    mon_violation("owner", "buffer " + std::to_string(b) + " touched by t" + std::to_string(me->id) + " but owned by worker thread t" + std::to_string(m.owner_tid));
  if (me->id == S.io_tid)
    mon_violation("owner", "I/O thread performed a worker access on buffer " + std::to_string(b));
  mon_access(b, false, what);
  me->open_buf = b;
}

static void mon_io_begin(int b, int which, const char *what) {
  if (b < 0 || b >= (int)S.bm.size()) return;
  ThreadRec *me = S.cur;
  BufMon &m = S.bm[b];
  if (S.io_tid == -1) S.io_tid = me->id;
  else if (S.io_tid != me->id) mon_violation("owner", std::string(what) + " by t" + std::to_string(me->id) + " but I/O thread is t" + std::to_string(S.io_tid));
  for (ThreadRec *t : S.th)
    if (t != me && t->open_buf == b && t->st != T_FINISHED) {
      S.res.probe_io_between_look_and_use++;
      mon_violation("phase", std::string("I/O thread began ") + what + " of buffer " + std::to_string(b) + " while worker t" + std::to_string(t->id) + " is using it");
    }
  if (!m.pending.empty()) {
    mon_violation("phase", m.pending + ", and the I/O thread went on to " + what + " it");
    m.pending.clear();
  }
  m.worker_phase = false;
  m.io_open = which;
  mon_access(b, true, what);
}
static void mon_io_end(int b, bool load, const char *what) {
  if (b < 0 || b >= (int)S.bm.size()) return;
  S.bm[b].io_open = 0;
  mon_access(b, true, what);
  if (load) { S.bm[b].worker_phase = true; S.bm[b].loads_ended++; }
}

// ---------------------------------------------------------------- public event entry points

void hook_event(int kind, const void *p1, const void *p2, unsigned long n) {
  Busy busy_guard;
  if (!S.active) return;
  ThreadRec *me = S.cur;
  switch (kind) {
  case 7: { // WV_GROUP
    S.buf_base = (const char *)p1;
    S.ctrl_base = (const char *)p2;
    S.nbuf = n;
    S.bm.assign(n, BufMon());
    S.io_tid = -1;
    for (ThreadRec *t : S.th) t->open_buf = -1;
    record(EV_GROUP, (int)n, 0);
    close_interval(me);
    yield_point();
    break;
  }
  case 1: { // WV_WORKER_LOOK
    int b = buf_index(p1);
    record(EV_LOOK, b, (long)n);
    yield_point();
    mon_worker_access(b, "cursor look");
    break;
  }
  case 2: { // WV_WORKER_RELOOK
    int b = buf_index(p1);
    record(EV_RELOOK, b, (long)n);
    close_interval(me);
    yield_point();
    if (g_is_ready && g_is_ready(p2)) mon_worker_access(b, "cursor re-look");
    break;
  }
  case 3: { // LOAD_BEGIN
    int b = buf_index(p1);
    record(EV_LOAD_BEGIN, b, 0);
    close_interval(me);
    yield_point();
    mon_io_begin(b, 1, "load");
    break;
  }
  case 4: { // LOAD_END
    int b = buf_index(p1);
    mon_io_end(b, true, "load");
    record(EV_LOAD_END, b, 0);
    yield_point();
    break;
  }
  case 5: { // EXPORT_BEGIN
    int b = buf_index(p1);
    record(EV_EXPORT_BEGIN, b, 0);
    close_interval(me);
    yield_point();
    mon_io_begin(b, 2, "export");
    break;
  }
  case 6: { // EXPORT_END
    int b = buf_index(p1);
    mon_io_end(b, false, "export");
    record(EV_EXPORT_END, b, 0);
    yield_point();
    break;
  }
  default: break;
  }
}

void spy_event(bool enter, int stream) {
  Busy busy_guard;
  if (!S.active) return;
  if (enter) {
    record(EV_SPY_ENTER, stream, 0);
    yield_point();
    mon_worker_access(stream, "block transform");
  } else {
    mon_worker_access(stream, "block transform");
    record(EV_SPY_EXIT, stream, 0);
    yield_point();
  }
}

void io_event(int kind, int file, long n) {
  Busy busy_guard;
  if (!S.active) return;
  record(kind, file, n);
}

// ---------------------------------------------------------------- instrumented memory accesses ('tsi' builds)

void mem_access(const void *p, unsigned size, bool write) {
  // a real thread that has not reached its trampoline yet, or has already passed the baton on for good (std::thread's own
  // set-up / tear-down runs instrumented inline code concurrently with the simulation), is not part of it
  if (!tl_sim || !S.active || g_in_mem || g_busy || !S.cur) return;
  ThreadRec *me = S.cur;
  if ((const char *)p >= me->stack_lo && (const char *)p < me->stack_hi) return;   // the running thread's own stack
  g_in_mem = true;
  Busy busy_guard;
  S.res.mem_accesses++;
  bool hot = false;
  bool global = (const char *)p >= &__data_start && (const char *)p < &_end;
  bool watched = S.buf_base && g_sizeof_iobuffer && (const char *)p >= S.buf_base && (const char *)p < S.buf_base + S.nbuf * g_sizeof_iobuffer;
  uintptr_t a0 = (uintptr_t)p >> 3, a1 = ((uintptr_t)p + (size ? size - 1 : 0)) >> 3;
  for (uintptr_t g = a0; g <= a1 && g < a0 + 4; g++) {
    MemShadow &sh = g_shadow[g];
    if (sh.first == 255) sh.first = (uint8_t)me->id;
    else if (sh.first != me->id) sh.flags |= 2;
    if (write) sh.flags |= 1;
    if ((sh.flags & 3) == 3) hot = true;
    // writable globals (file-scope / static state: lazily built tables, flags, counters) are potentially shared from
    // their first access on - the interesting interleaving of a racy initialisation is the one BEFORE a second thread
    // has touched them; a global that is only ever read is left alone after a few reads
    if (global && !hot) {
      if (sh.flags & 1) hot = true;
      else if (sh.ro_reads < 6) { sh.ro_reads++; hot = true; }
    }
    if (watched) {
      // happens-before on the chunk buffers' own memory, independent of where the hooks sit
      bool race = false;
      int other = -1;
      if (sh.wtid != 255 && sh.wtid != me->id && sh.wclk > me->vc[sh.wtid]) { race = true; other = sh.wtid; }
      if (write && sh.rtid != 255 && sh.rtid != me->id && sh.rclk > me->vc[sh.rtid]) { race = true; other = sh.rtid; }
      if (race) {
        long off = (const char *)p - S.buf_base;
        mon_violation("hb-mem", std::string(write ? "store to" : "load from") + " buffer " + std::to_string(off / (long)g_sizeof_iobuffer) + " (offset " + std::to_string(off % (long)g_sizeof_iobuffer) +
                                    ") by t" + std::to_string(me->id) + " not ordered after an access by t" + std::to_string(other));
      }
    }
    if (write) { sh.wtid = (uint8_t)me->id; sh.wclk = me->vc[me->id]; }
    else { sh.rtid = (uint8_t)me->id; sh.rclk = me->vc[me->id]; }
  }
  // after a store to hot memory (typically: publishing a pointer or a "ready" flag) the same thread's next accesses are
  // scheduling points whatever they touch: the memory it goes on to initialise is still private, but the other threads
  // can already see the publication
  if (hot && write) me->hot_trail = 40;
  else if (!hot && me->hot_trail > 0) { me->hot_trail--; hot = true; }
  if (hot) {
    // memory that is written during this operation and touched by more than one thread: a scheduling point right
    // before the access, so that interleavings BETWEEN the loads and stores of unsynchronised code are explored
    S.res.mem_sched_points++;
    record(EV_MEM, write ? 1 : 0, 0);
    yield_point();
  }
  g_in_mem = false;
}

// memory handed out by operator new / returned to operator delete starts without history: which granules count as
// "shared and written" must depend on what happened to the OBJECT, not on who owned the address before (heap reuse
// differs from process to process and would make runs irreproducible)
void mem_fresh(const void *p, unsigned long n) {
  if (!tl_sim || !S.active || g_busy || g_in_mem || g_shadow.empty()) return;   // (the shadow map's own nodes come through here too)
  g_in_mem = true;
  uintptr_t a0 = (uintptr_t)p >> 3, a1 = ((uintptr_t)p + (n ? n - 1 : 0)) >> 3;
  if (a1 - a0 > 4096) { a1 = a0 + 4096; }
  for (uintptr_t g = a0; g <= a1; g++) g_shadow.erase(g);
  g_in_mem = false;
}

// ---------------------------------------------------------------- session

void session_begin(const SchedConfig &cfg) {
  Busy busy_guard;
  if (S.active) { fprintf(stderr, "simsched: nested session\n"); abort(); }
  S.cfg = cfg;
  S.rng.reseed(cfg.seed);
  S.res = SchedResult();
  S.replay_pos = 0;
  // libstdc++ counts references without atomics while glibc says the process has never had a second thread; that is true
  // for the first operation of a process only (and again in a forked child), and would make its instruction stream - and
  // in 'tsi' builds its trace - differ from every later one
  __libc_single_threaded = false;
  S.spurious_left = cfg.max_spurious;
  S.timeouts_left = cfg.max_timeouts;
  { static bool looked = false; if (!looked) { looked = true; if (const char *f = getenv("SIM_DUMP_EVENTS")) g_dump = fopen(f, "a"); } if (g_dump) fprintf(g_dump, "== session\n"); }
  S.mtx_id.clear(); S.cv_id.clear(); S.mtx_vc.clear(); S.obj_hash.clear(); S.atom_vc.clear();
  g_shadow.clear();
  next_mtx_id = 0; next_cv_id = 0;
  S.buf_base = S.ctrl_base = nullptr; S.nbuf = 0; S.bm.clear(); S.io_tid = -1;
  S.last_kind = 0; S.spin_steps = 0; S.in_atomic = false;
  S.enum_spur_done = false;
  S.low_prio = -1;
  S.pct_points.clear();
  if (cfg.strategy == ST_PCT)
    for (int i = 0; i + 1 < cfg.pct_depth; i++) S.pct_points.push_back(1 + (long)S.rng.below(std::max<long>(cfg.est_steps, 2)));
  ThreadRec *m = new ThreadRec();
  m->id = 0;
  m->started = true;
  memset(m->vc, 0, sizeof(m->vc));
  m->vc[0] = 1;
  m->prio = (cfg.strategy == ST_PCT) ? (long)S.rng.below(1000) + 1 : 0;
  sem_init(&m->sem, 0, 0);
  S.th.clear();
  S.th.push_back(m);
  S.cur = m;
  note_stack(m);
  tl_sim = true;
  S.active = true;
}

SchedResult session_end() {
  Busy busy_guard;
  // every other thread must have finished and been joined
  std::string unj;
  for (ThreadRec *t : S.th)
    if (t->id != 0 && t->st != T_FINISHED) unj += "t" + std::to_string(t->id) + " ";
  if (!unj.empty()) fail(FAIL_UNJOINED, "operation returned while threads are unfinished: " + unj + "| " + blocked_table());
  S.active = false;   // from here on nothing is simulated any more (instrumented destructors may still call in)
  S.cur = nullptr;
  tl_sim = false;
  for (ThreadRec *t : S.th) {
    if (t->id != 0 && t->real.joinable()) t->real.join();
    sem_destroy(&t->sem);
    delete t;
  }
  S.th.clear();
  uint64_t sig = FNV_INIT;
  for (uint64_t h : S.obj_hash) sig = fnv1a_u64(sig, h);
  S.res.sync_sig = sig;
  S.active = false;
  SchedResult r = std::move(S.res);
  S.res = SchedResult();
  return r;
}

static void trampoline(ThreadRec *r) {
  sem_wait_retry(&r->sem);
  g_busy = true;
  tl_sim = true;
  note_stack(r);
  r->started = true;
  record(EV_THREAD_START, r->id, 0);
  g_busy = false;
  r->fn();
  g_busy = true;
  // thread exit
  record(EV_THREAD_EXIT, r->id, 0);
  close_interval(r);
  r->st = T_FINISHED;
  r->vc[r->id]++;
  for (ThreadRec *t : S.th)
    if (t->st == T_BLOCKED_JOIN && t->blocked_on == r) { t->st = T_RUNNABLE; t->blocked_on = nullptr; }
  check_budget();
  ThreadRec *n = choose(false);
  if (!n) fail(FAIL_DEADLOCK, "no runnable thread after exit of t" + std::to_string(r->id) + ": " + blocked_table());
  S.res.switches++;
  S.cur = n;
  tl_sim = false;
  sem_post(&n->sem);
  // (g_busy stays true: the thread that was just released sets it for itself in switch_to)
}

} // namespace simsched

// ---------------------------------------------------------------- std:: replacements

namespace std {
using namespace simsched;

// std::atomic operations: scheduling point before, vector-clock transfer after (treated as acquire + release)
void sim_atomic_event(const void *addr, int kind) {
  Busy busy_guard;
  if (!S.active) return;
  auto it = S.atom_vc.find(addr);
  int id = it == S.atom_vc.end() ? (int)S.atom_vc.size() : (int)std::distance(S.atom_vc.begin(), it);
  (void)id;
  record(EV_ATOMIC, kind, 0);
  close_interval(S.cur);
  yield_point();
  S.in_atomic = true;
}
void sim_atomic_after(const void *addr, int kind) {
  Busy busy_guard;
  if (!S.active) return;
  S.in_atomic = false;
  ThreadRec *me = S.cur;
  std::vector<uint32_t> &vc = S.atom_vc[addr];
  if (vc.empty()) vc.assign(MAXT, 0);
  if (kind == 0 || kind == 2) vc_join(me->vc, vc.data());                 // acquire
  if (kind == 1 || kind == 2) {                                           // release (joins: every earlier release stays visible)
    for (int i = 0; i < MAXT; i++) if (me->vc[i] > vc[i]) vc[i] = me->vc[i];
    me->vc[me->id]++;
  }
}

} // namespace std
namespace simsched {
// 'tsi' builds: an atomic operation of instrumented code that did not come through sim_atomic (atomic_ref, GCC builtins, C
// atomics): same treatment.  Returns whether atomic_cb_end has to be called.
bool atomic_cb_begin(const void *a, int kind) {
  if (!tl_sim || !S.active || g_busy || g_in_mem || !S.cur || S.in_atomic) return false;
  std::sim_atomic_event(a, kind);
  return true;
}
void atomic_cb_end(const void *a, int kind) { std::sim_atomic_after(a, kind); }
} // namespace simsched
namespace std {
using namespace simsched;

void sim_yield_event() {
  Busy busy_guard;
  if (!S.active) return;
  record(EV_YIELD, 0, 0);
  close_interval(S.cur);
  yield_away();
}

sim_mutex::~sim_mutex() {
  Busy busy_guard;
  if (S.active) S.mtx_id.erase(this);
}

void sim_mutex::lock() {
  Busy busy_guard;
  if (!S.active) { owner_ = 0; return; }
  ThreadRec *me = S.cur;
  int id = mutex_id(this);
  record(EV_LOCK_REQ, id, 0);
  close_interval(me);
  yield_point();
  while (owner_ != -1) {
    me->st = T_BLOCKED_MUTEX;
    me->blocked_on = this;
    yield_blocked();
  }
  owner_ = me->id;
  id = mutex_id(this);
  vc_join(me->vc, S.mtx_vc[id].data());
  record(EV_LOCK_ACQ, id, 0);
  sig_obj(id, me->id);
  // a real thread can be preempted while it holds the mutex: others then see the contention (block, or fail a try_lock)
  // and whatever the critical section has written so far
  yield_point();
}

bool sim_mutex::try_lock() {
  Busy busy_guard;
  if (!S.active) { if (owner_ != -1) return false; owner_ = 0; return true; }
  ThreadRec *me = S.cur;
  int id = mutex_id(this);
  record(EV_TRYLOCK, id, 0);
  close_interval(me);
  yield_point();
  if (owner_ != -1) return false;
  owner_ = me->id;
  id = mutex_id(this);
  vc_join(me->vc, S.mtx_vc[id].data());
  record(EV_LOCK_ACQ, id, 0);
  sig_obj(id, me->id);
  yield_point();
  return true;
}

static void release_mutex(sim_mutex *m, ThreadRec *me) {
  int id = mutex_id(m);
  m->owner_ = -1;
  memcpy(S.mtx_vc[id].data(), me->vc, sizeof(uint32_t) * MAXT);
  me->vc[me->id]++;
  for (ThreadRec *t : S.th)
    if (t->st == T_BLOCKED_MUTEX && t->blocked_on == m) { t->st = T_RUNNABLE; t->blocked_on = nullptr; }
}

void sim_mutex::unlock() {
  Busy busy_guard;
  if (!S.active) { owner_ = -1; return; }
  ThreadRec *me = S.cur;
  release_mutex(this, me);
  record(EV_UNLOCK, mutex_id(this), 0);
  close_interval(me);
  yield_point();
}

sim_condition_variable::sim_condition_variable() noexcept {}
sim_condition_variable::~sim_condition_variable() {
  Busy busy_guard;
  if (S.active) S.cv_id.erase(this);
}

void sim_condition_variable::notify_one() noexcept {
  Busy busy_guard;
  if (!S.active) return;
  ThreadRec *me = S.cur;
  std::vector<ThreadRec *> w;
  for (ThreadRec *t : S.th) if (t->st == T_BLOCKED_CV && t->blocked_on == this) w.push_back(t);
  record(EV_NOTIFY_ONE, condvar_id(this), (long)w.size());
  if (!w.empty()) {
    ThreadRec *v = w[0];
    if (w.size() > 1) {
      S.res.notify_victim_choices++;
      if (S.cfg.use_replay) {
        int d = -1;
        if (S.replay_pos < S.cfg.replay.size() && S.cfg.replay[S.replay_pos] >= 0) d = S.cfg.replay[S.replay_pos++];
        for (ThreadRec *t : w) if (t->id == d) v = t;
      } else v = w[S.rng.below(w.size())];
      S.res.decisions.push_back(v->id);
    }
    v->st = T_RUNNABLE;
    v->blocked_on = nullptr;
  }
  close_interval(me);
  yield_point();
}

void sim_condition_variable::notify_all() noexcept {
  Busy busy_guard;
  if (!S.active) return;
  ThreadRec *me = S.cur;
  long n = 0;
  for (ThreadRec *t : S.th)
    if (t->st == T_BLOCKED_CV && t->blocked_on == this) { t->st = T_RUNNABLE; t->blocked_on = nullptr; n++; }
  record(EV_NOTIFY_ALL, condvar_id(this), n);
  close_interval(me);
  yield_point();
}

static void cv_block(sim_condition_variable *cv, std::unique_lock<sim_mutex> &lk, bool timed) {
  Busy busy_guard;
  if (!S.active) { fprintf(stderr, "simsched: condition_variable::wait outside a session\n"); abort(); }
  ThreadRec *me = S.cur;
  sim_mutex *m = lk.mutex();
  // A real thread can be preempted between its last look at the predicate and the moment the wait has registered it: the
  // mutex is still held, so a notifier that takes the mutex cannot slip in - one that does not (state kept in an atomic,
  // notify without the lock) can, and its notification is then lost.
  record(EV_CV_ENTER, condvar_id(cv), timed);
  close_interval(me);
  yield_point();
  record(EV_CV_WAIT, condvar_id(cv), timed);
  close_interval(me);
  release_mutex(m, me);
  me->st = T_BLOCKED_CV;
  me->blocked_on = cv;
  me->timed = timed;
  me->timed_out = false;
  me->woke_spurious = false;
  yield_blocked();
  me->timed = false;
  if (me->woke_spurious) S.res.probe_spurious_consumed++;
  record(EV_CV_WAKE, condvar_id(cv), me->woke_spurious ? 1 : (me->timed_out ? 2 : 0));
  while (m->owner_ != -1) {
    me->st = T_BLOCKED_MUTEX;
    me->blocked_on = m;
    yield_blocked();
  }
  m->owner_ = me->id;
  int id = mutex_id(m);
  vc_join(me->vc, S.mtx_vc[id].data());
  record(EV_LOCK_ACQ, id, 1);
  sig_obj(id, me->id);
  yield_point();   // holding the mutex again after the wait: preemptible here too
}

void sim_condition_variable::wait(std::unique_lock<sim_mutex> &lk) { cv_block(this, lk, false); }
bool sim_condition_variable::wait_timed_(std::unique_lock<sim_mutex> &lk) {
  cv_block(this, lk, true);
  return !S.cur->timed_out;
}

void sim_thread::start_(std::function<void()> fn) {
  Busy busy_guard;
  if (!S.active) { fprintf(stderr, "simsched: std::thread created outside a session\n"); abort(); }
  ThreadRec *me = S.cur;
  if ((int)S.th.size() >= MAXT) { fprintf(stderr, "simsched: too many threads\n"); abort(); }
  ThreadRec *r = new ThreadRec();
  r->id = (int)S.th.size();
  r->fn = std::move(fn);
  memcpy(r->vc, me->vc, sizeof(r->vc));
  r->vc[r->id] = 1;
  me->vc[me->id]++;
  r->prio = (S.cfg.strategy == ST_PCT && !S.cfg.use_replay) ? (long)S.rng.below(1000) + 1 : 0;
  sem_init(&r->sem, 0, 0);
  S.th.push_back(r);
  S.res.threads_created++;
  r->real = std::thread(trampoline, r);
  rec_ = r;
  record(EV_THREAD_CREATE, r->id, 0);
  close_interval(me);
  yield_point();
}

void sim_thread::join() {
  Busy busy_guard;
  if (!rec_) throw std::system_error(std::make_error_code(std::errc::invalid_argument));
  ThreadRec *me = S.cur;
  ThreadRec *r = rec_;
  record(EV_JOIN_REQ, r->id, 0);
  close_interval(me);
  yield_point();
  while (r->st != T_FINISHED) {
    me->st = T_BLOCKED_JOIN;
    me->blocked_on = r;
    yield_blocked();
  }
  vc_join(me->vc, r->vc);
  record(EV_JOIN_DONE, r->id, 0);
  if (r->real.joinable()) r->real.join();
  rec_ = nullptr;
}

void sim_thread::detach() {
  Busy busy_guard;
  if (!rec_) throw std::system_error(std::make_error_code(std::errc::invalid_argument));
  rec_->detached = true;
  rec_ = nullptr;
}

sim_thread::id sim_thread::get_id() const noexcept { return rec_ ? rec_->real.get_id() : id(); }
sim_thread::native_handle_type sim_thread::native_handle() { return rec_ ? rec_->real.native_handle() : pthread_t(); }

} // namespace std


// ---------------------------------------------------------------- function-local statics (__cxa_guard_*)
// A thread that is preempted inside the initialiser of a function-local static (possible wherever the initialiser contains a
// scheduling point, e.g. any shared store in a 'tsi' build) would leave the next thread that reaches the same static blocked
// in the C++ runtime's futex, i.e. for real, and the simulation would stand still.  Linked with --wrap, the guard protocol
// is played on a simulated mutex per guard instead: same semantics (one initialiser runs, the others wait for it and then see
// its result), but the waiting happens inside the simulator.
extern "C" {
int __real___cxa_guard_acquire(uint64_t *);
void __real___cxa_guard_release(uint64_t *);
void __real___cxa_guard_abort(uint64_t *);
}
namespace {
struct GuardTab {
  std::unordered_map<uint64_t *, std::sim_mutex *> m;   // never freed: one entry per function-local static ever contended in a session
};
static GuardTab *g_guardtab = nullptr;
static inline bool guard_sim() { return simsched::tl_sim && simsched::S.active && !simsched::g_busy && simsched::S.cur; }
}
extern "C" int __wrap___cxa_guard_acquire(uint64_t *g) {
  if (!guard_sim()) return __real___cxa_guard_acquire(g);
  if (__atomic_load_n((uint8_t *)g, __ATOMIC_ACQUIRE)) return 0;
  std::sim_mutex *m;
  {
    simsched::Busy busy_guard;
    if (!g_guardtab) g_guardtab = new GuardTab;
    std::sim_mutex *&slot = g_guardtab->m[g];
    if (!slot) slot = new std::sim_mutex;
    m = slot;
  }
  m->lock();
  if (__atomic_load_n((uint8_t *)g, __ATOMIC_ACQUIRE)) { m->unlock(); return 0; }
  return 1;
}
static std::sim_mutex *guard_owned(uint64_t *g) {
  if (!guard_sim() || !g_guardtab) return nullptr;
  simsched::Busy busy_guard;
  auto it = g_guardtab->m.find(g);
  if (it == g_guardtab->m.end() || it->second->owner_ != simsched::S.cur->id) return nullptr;
  return it->second;
}
extern "C" void __wrap___cxa_guard_release(uint64_t *g) {
  std::sim_mutex *m = guard_owned(g);
  if (!m) { __real___cxa_guard_release(g); return; }
  __atomic_store_n((uint8_t *)g, 1, __ATOMIC_RELEASE);
  m->unlock();
}
extern "C" void __wrap___cxa_guard_abort(uint64_t *g) {
  std::sim_mutex *m = guard_owned(g);
  if (!m) { __real___cxa_guard_abort(g); return; }
  m->unlock();
}
