// Litmus programs for the scheduler itself (./check selftest scheduler): small programs written against
// std::mutex / std::condition_variable / std::thread (i.e. the shim), with a known verdict each.  They exercise the
// parts of the model the unmodified wencry never uses (notify_one with several waiters, timed waits, try_lock, detach).
#include "harness.h"
#include <cstdio>
#include <cstring>
#include <unistd.h>
#include <sys/wait.h>

namespace {

struct Q {
  std::mutex m;
  std::condition_variable cv;
  int items = 0;
  bool done = false;
};

// 1. correct bounded hand-over: must terminate with the right sum under every schedule and spurious wake-ups
static bool prog_correct() {
  Q q;
  long sum = 0;
  std::thread c1([&] { for (;;) { std::unique_lock<std::mutex> l(q.m); while (q.items == 0 && !q.done) q.cv.wait(l); if (q.items == 0 && q.done) return; q.items--; sum++; } });
  std::thread c2([&] { for (;;) { std::unique_lock<std::mutex> l(q.m); q.cv.wait(l, [&] { return q.items > 0 || q.done; }); if (q.items == 0 && q.done) return; q.items--; sum++; } });
  for (int i = 0; i < 6; i++) { std::lock_guard<std::mutex> l(q.m); q.items++; q.cv.notify_one(); }
  { std::lock_guard<std::mutex> l(q.m); q.done = true; }
  q.cv.notify_all();
  c1.join(); c2.join();
  return sum == 6;
}

// 2. lost wake-up: the consumer tests the flag without the lock and then waits -> must deadlock under some schedule
static bool prog_lost_wakeup() {
  Q q;
  std::thread c([&] { if (!q.done) { std::unique_lock<std::mutex> l(q.m); q.cv.wait(l); } });
  { std::lock_guard<std::mutex> l(q.m); q.done = true; }
  q.cv.notify_all();
  c.join();
  return true;
}

// 3. `if` instead of `while`: wrong only when the wait returns spuriously
static bool prog_if_wait() {
  Q q;
  int got = -1;
  std::thread c([&] { std::unique_lock<std::mutex> l(q.m); if (q.items == 0) q.cv.wait(l); got = q.items; });
  { std::lock_guard<std::mutex> l(q.m); q.items = 1; }
  q.cv.notify_all();
  c.join();
  return got == 1;
}

// 4. notify_one with two waiters of which only one may proceed: the wrong victim keeps waiting -> deadlock under some victim choice
static bool prog_notify_one_wrong_victim() {
  Q q;
  int turn = 0;
  auto w = [&](int me) { std::unique_lock<std::mutex> l(q.m); while (turn != me) q.cv.wait(l); };
  std::thread a(w, 1), b(w, 2);
  // wait until both are (very likely) waiting: no way to know without the bug; the schedule decides
  { std::lock_guard<std::mutex> l(q.m); turn = 1; }
  q.cv.notify_one();
  a.join();
  { std::lock_guard<std::mutex> l(q.m); turn = 2; }
  q.cv.notify_all();
  b.join();
  return true;
}

// 5. timed wait loop that re-checks its predicate: must terminate whatever the scheduler does with the time-outs
static bool prog_timed_loop() {
  Q q;
  std::thread c([&] { std::unique_lock<std::mutex> l(q.m); while (!q.done) q.cv.wait_for(l, std::chrono::milliseconds(10)); });
  std::thread d([&] { std::unique_lock<std::mutex> l(q.m); q.cv.wait_for(l, std::chrono::seconds(1), [&] { return q.done; }); });
  { std::lock_guard<std::mutex> l(q.m); q.done = true; }
  q.cv.notify_all();
  c.join(); d.join();
  return true;
}

// 6. timed wait whose result is ignored: proceeds without the condition when the time-out fires
static bool prog_timed_ignored() {
  Q q;
  bool saw = false;
  std::thread c([&] { std::unique_lock<std::mutex> l(q.m); q.cv.wait_for(l, std::chrono::seconds(10), [&] { return q.done; }); saw = q.done; });
  { std::lock_guard<std::mutex> l(q.m); q.done = true; }
  q.cv.notify_all();
  c.join();
  return saw;
}

// 7. lock-order inversion: deadlocks under some schedule
static bool prog_lock_inversion() {
  std::mutex a, b;
  std::thread t([&] { std::lock_guard<std::mutex> x(b); std::lock_guard<std::mutex> y(a); });
  { std::lock_guard<std::mutex> x(a); std::lock_guard<std::mutex> y(b); }
  t.join();
  return true;
}

// 8. try_lock never blocks; unjoined (detached) thread that never finishes is reported
static bool prog_trylock() {
  std::mutex a;
  int n = 0;
  std::thread t([&] { for (int i = 0; i < 3; i++) if (a.try_lock()) { n++; a.unlock(); } });
  for (int i = 0; i < 3; i++) if (a.try_lock()) { n++; a.unlock(); }
  t.join();
  return n >= 1 && n <= 6;
}

// 9. the wider vocabulary (recursive / shared / timed mutex, condition_variable_any, call_once): a correct program
static bool prog_vocabulary() {
  std::recursive_mutex rm;
  std::shared_mutex sm;
  std::timed_mutex tm;
  std::condition_variable_any cva;
  std::once_flag once;
  int inits = 0, shared_val = 0, got = 0;
  bool ready = false;
  auto reader = [&] {
    std::call_once(once, [&] { inits++; });
    { std::shared_lock<std::shared_mutex> l(sm); (void)shared_val; }
    { std::lock_guard<std::recursive_mutex> a(rm); std::lock_guard<std::recursive_mutex> b(rm); got++; }
    { std::unique_lock<std::timed_mutex> l(tm); cva.wait(l, [&] { return ready; }); }
  };
  std::thread a(reader), b(reader);
  std::call_once(once, [&] { inits++; });
  { std::unique_lock<std::shared_mutex> l(sm); shared_val = 7; }
  while (!tm.try_lock_for(std::chrono::milliseconds(1))) std::this_thread::yield();
  ready = true;
  tm.unlock();
  cva.notify_all();
  a.join(); b.join();
  return inits == 1 && got == 2;
}

// 10. polling an atomic flag, with and without yield: terminates on any fair machine, so it must terminate here
static bool prog_spin() {
  std::atomic<int> flag{0};
  std::atomic<int> seen{0};
  std::thread a([&] { while (flag.load() == 0) std::this_thread::yield(); seen.fetch_add(1); });
  std::thread b([&] { while (flag.load() == 0) {} seen.fetch_add(1); });
  flag.store(1);
  a.join(); b.join();
  return seen.load() == 2;
}

// 11. function-local static whose initialiser contains scheduling points, reached by three threads at once
struct SlowTable {
  int v[4];
  SlowTable() { std::mutex m; for (int i = 0; i < 4; i++) { std::lock_guard<std::mutex> l(m); v[i] = i * i; } }
};
static int slow_lookup(int i) { static const SlowTable t; return t.v[i]; }
static int slow_lookup2(int i) { static const SlowTable t; return t.v[i] + 1; }
static bool prog_magic_static() {
  static int round = 0;
  int r1 = 0, r2 = 0;
  // (a different static on every other call, so that later executions in one process still initialise something)
  auto f = (round++ & 1) ? slow_lookup : slow_lookup2;
  int base = f == slow_lookup ? 0 : 1;
  std::thread a([&] { r1 = f(3); }), b([&] { r2 = f(2); });
  int r0 = f(1);
  a.join(); b.join();
  return r0 == 1 + base && r1 == 9 + base && r2 == 4 + base;
}

// 12. a test-and-set spin lock (atomic_flag) around a critical section that contains scheduling points; typedef'd atomics,
// the free-function interface and an atomic pointer
static bool prog_spinlock() {
  std::atomic_flag lk = ATOMIC_FLAG_INIT;
  std::mutex inner;
  std::atomic_int cnt{0};
  std::atomic<int *> ptr{nullptr};
  static int cells[4];
  int plain = 0;
  auto body = [&] {
    for (int i = 0; i < 3; i++) {
      while (lk.test_and_set(std::memory_order_acquire)) {}
      { std::lock_guard<std::mutex> g(inner); plain++; }
      lk.clear(std::memory_order_release);
      std::atomic_fetch_add(&cnt, 1);
    }
  };
  std::thread a(body), b(body);
  ptr.store(cells);
  ptr.fetch_add(1);
  ++ptr;
  a.join(); b.join();
  return plain == 6 && std::atomic_load(&cnt) == 6 && ptr.load() == cells + 2;
}

// 13. futures: promise/future hand-shake at thread start, async with results, shared_future, packaged_task, timed wait
static int twice(int x) { return 2 * x; }
static bool prog_futures() {
  std::promise<void> up;
  std::promise<int> val;
  std::future<int> fv = val.get_future();
  std::thread t([&] { up.set_value(); val.set_value(20); });
  up.get_future().wait();
  std::future<int> a = std::async(std::launch::async, twice, 4);
  std::future<int> b = std::async(twice, 5);
  std::future<int> c = std::async(std::launch::deferred, twice, 6);
  std::shared_future<int> sf = std::async(std::launch::async, [] { return 1; }).share();
  std::shared_future<int> sf2 = sf;
  std::packaged_task<int(int)> pt(twice);
  std::future<int> pf = pt.get_future();
  std::thread t2(std::move(pt), 7);
  while (fv.wait_for(std::chrono::milliseconds(1)) != std::future_status::ready) {}
  int sum = fv.get() + a.get() + b.get() + c.get() + sf.get() + sf2.get() + pf.get();
  t.join(); t2.join();
  bool threw = false;
  std::future<int> e = std::async(std::launch::async, []() -> int { throw std::runtime_error("x"); });
  try { e.get(); } catch (const std::runtime_error &) { threw = true; }
  { std::future<void> dropped = std::async(std::launch::async, [] {}); }   // destructor waits and joins
  return sum == 20 + 8 + 10 + 12 + 1 + 1 + 14 && threw;
}

struct Prog { const char *name; bool (*fn)(); bool expect_always_ok; bool needs_spurious; };
static const Prog PROGS[] = {
    {"correct-handover", prog_correct, true, false},
    {"lost-wakeup(check without lock)", prog_lost_wakeup, false, false},
    {"if-instead-of-while(needs spurious wake-up)", prog_if_wait, false, true},
    {"notify_one-wrong-victim", prog_notify_one_wrong_victim, false, false},
    {"timed-wait-loop", prog_timed_loop, true, false},
    {"timed-wait-result-ignored", prog_timed_ignored, false, false},
    {"lock-order-inversion", prog_lock_inversion, false, false},
    {"try_lock", prog_trylock, true, false},
    {"recursive/shared/timed mutex, cv_any, call_once", prog_vocabulary, true, false},
    {"polling an atomic (with/without yield): fairness", prog_spin, true, false},
    {"contended function-local static", prog_magic_static, true, false},
    {"atomic_flag spin lock, atomic typedefs/free functions", prog_spinlock, true, false},
    {"promise/future, async, shared_future, packaged_task", prog_futures, true, false},
};

static void quiet_fail(int, const char *) { _exit(42); }

// one execution in a forked child: 0 = ok, 1 = wrong result, 2 = deadlock / budget / unjoined
static int run_one(const Prog &p, int strategy, uint64_t seed, int max_spur) {
  pid_t pid = fork();
  if (pid == 0) {
    simsched::set_fail_handler(quiet_fail);
    simsched::SchedConfig c;
    c.strategy = strategy;
    c.seed = seed;
    c.max_spurious = max_spur;
    c.p_spurious = 0.2;
    c.step_budget = 5000;
    c.sticky_p = 0.7;
    alarm(10);
    simsched::session_begin(c);
    bool ok = p.fn();
    simsched::session_end();
    _exit(ok ? 0 : 1);
  }
  int st = 0;
  waitpid(pid, &st, 0);
  if (WIFEXITED(st) && WEXITSTATUS(st) == 0) return 0;
  if (WIFEXITED(st) && WEXITSTATUS(st) == 1) return 1;
  return 2;
}

} // namespace

int litmus_main(FILE *rep) {
  int bad = 0;
  static const int strategies[] = {simsched::ST_RR, simsched::ST_UNIFORM, simsched::ST_STICKY, simsched::ST_PCT, simsched::ST_HOOKBIAS};
  for (const Prog &p : PROGS) {
    long runs = 0, wrong = 0, hang = 0, wrong_nospur = 0, hang_nospur = 0;
    for (int spur = 0; spur < 2; spur++)
      for (int st : strategies)
        for (uint64_t seed = 1; seed <= 60; seed++) {
          int r = run_one(p, st, seed * 7919 + st, spur ? 3 : 0);
          runs++;
          if (r == 1) { wrong++; if (!spur) wrong_nospur++; }
          if (r == 2) { hang++; if (!spur) hang_nospur++; }
        }
    bool ok;
    if (p.expect_always_ok) ok = wrong == 0 && hang == 0;
    else if (p.needs_spurious) ok = (wrong + hang) > 0 && wrong_nospur == 0 && hang_nospur == 0;
    else ok = (wrong + hang) > 0;
    fprintf(rep, "litmus %-46s runs=%ld wrong=%ld hang=%ld (without spurious wake-ups: wrong=%ld hang=%ld) expectation %s\n", p.name, runs, wrong, hang, wrong_nospur, hang_nospur, ok ? "met" : "NOT MET");
    if (!ok) bad++;
  }
  fflush(rep);
  return bad ? 1 : 0;
}
