// Running one wencry operation (the real runcrypt code) under the simulator.
#pragma once
#include "simsched.h"
#include "simfile.h"
#include "ref.h"

struct SpyCall { uint8_t tid; uint8_t in[16]; uint8_t out[16]; };

enum OpKind { OP_ENC = 0, OP_DEC = 1, OP_VER = 2 };

struct OpSpec {
  int kind = OP_ENC;
  int T = 1;
  int cmode = 0, hmode = 0;
  uint8_t key[16] = {0};
  int keyslot = 0;          // which of the harness's two long-lived key buffers the operation's key is handed over in
  Bytes seedstr;            // encrypt only; no NUL bytes, <= 255
  SimFile *fin = nullptr;   // nullptr => runcrypt gets fin == NULL
  SimFile *fout = nullptr;  // nullptr => out == NULL
  int inbuf = -1, outbuf = -1;
  bool short_io = false;
  uint64_t io_seed = 1;
  size_t fsize = 0;         // only feeds the progress display
  bool echo = false;        // Settings::no_echo = !echo: with echo the progress / mode-name / result printers run (std::cout goes to /dev/null)
  simsched::SchedConfig sc;
};

struct OpResult {
  bool ret = false;
  simsched::SchedResult sr;
  std::vector<std::vector<SpyCall>> spy;   // per stream (creation order)
};

OpResult run_op(const OpSpec &op);
long est_steps(long nbytes, int T);
size_t build_chunk_bytes();       // iobuffer::sum of this build
size_t build_hash_refill_bytes(); // filebuffer64 refill of this build (HBUF_SZ*64), 0 if unknown
const char *build_variant();
