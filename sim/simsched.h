// Deterministic scheduler: real threads, parked and released one at a time.
// See DESIGN.md 2.2.  This header is safe to include with or without the shim macros.
#pragma once
#include <cstdint>
#include <string>
#include <vector>
#include <functional>
#include "rng.h"

namespace simsched {

enum EvKind : uint8_t {
  EV_LOCK_REQ = 1, EV_LOCK_ACQ, EV_UNLOCK, EV_CV_WAIT, EV_CV_WAKE, EV_NOTIFY_ONE, EV_NOTIFY_ALL,
  EV_THREAD_CREATE, EV_THREAD_START, EV_THREAD_EXIT, EV_JOIN_REQ, EV_JOIN_DONE,
  EV_LOOK, EV_RELOOK, EV_LOAD_BEGIN, EV_LOAD_END, EV_EXPORT_BEGIN, EV_EXPORT_END, EV_GROUP,
  EV_SPY_ENTER, EV_SPY_EXIT, EV_SPURIOUS, EV_IO_READ, EV_IO_WRITE, EV_IO_SEEK, EV_TRYLOCK, EV_TIMEOUT, EV_ATOMIC, EV_MEM, EV_YIELD, EV_CV_ENTER,
  EV_KIND_MAX
};
const char *ev_name(int k);

struct Event {
  uint32_t step;
  uint8_t tid;
  uint8_t kind;
  int32_t obj;   // per-run object id (first-use order) or buffer/stream index
  int64_t a;
};

enum Strategy { ST_RR = 0, ST_UNIFORM, ST_STICKY, ST_PCT, ST_STARVE, ST_HOOKBIAS, ST_ENUM, ST_MAX };
const char *strategy_name(int s);

struct SchedConfig {
  int strategy = ST_RR;
  double sticky_p = 0.9;
  int pct_depth = 2;
  int starve_tid = 0;
  int max_spurious = 0;
  int max_timeouts = 8;        // time-outs of timed waits fired at random per run (one that fires because nothing else can run is not counted)
  double p_spurious = 0.02;
  uint64_t seed = 1;
  bool use_replay = false;
  std::vector<int> replay;     // explicit decision list (see sched.cpp: decision encoding)
  long step_budget = 1000000;
  long est_steps = 400;        // for pct change points
  bool keep_events = true;
  // ST_ENUM: the canonical (run-until-block) schedule with a preemption forced at the given decision indices
  long enum_k[2] = {-1, -1};
  int enum_c[2] = {0, 0};
  long enum_spur_k = -1;   // ST_ENUM: inject one spurious wake-up when this decision index is reached
  int enum_spur_c = 0;
};

enum FailKind { FAIL_NONE = 0, FAIL_DEADLOCK, FAIL_BUDGET, FAIL_UNJOINED, FAIL_WALL };

struct MonitorViolation {
  std::string cls;     // "phase:..." or "hb:..." etc
  std::string detail;
  uint32_t step;
};

struct SchedResult {
  int fail = FAIL_NONE;
  std::string fail_detail;
  long steps = 0, switches = 0, preemptions = 0;
  int spurious_fired = 0, notify_victim_choices = 0, threads_created = 0, timeouts_fired = 0;
  uint64_t trace_hash = FNV_INIT;   // (tid, kind, obj, a) of every event
  uint64_t sync_sig = FNV_INIT;     // per-object sequence of acquiring/accessing threads
  std::vector<int> decisions;
  std::vector<Event> events;
  std::vector<MonitorViolation> mon;   // C14 monitor findings (first few)
  // probes
  long probe_look_before_first_load = 0;   // worker looked at a buffer whose first LOAD had not ended
  long probe_io_between_look_and_use = 0;
  long probe_spurious_consumed = 0;
  long probe_max_runnable = 0;
  long decision_points = 0;               // scheduling points at which >= 2 threads could run
  long mem_accesses = 0, mem_sched_points = 0;   // 'tsi' builds: instrumented memory accesses seen / turned into scheduling points
};

// ---- session control (called by the harness on the thread that will act as simulated main) ----
void session_begin(const SchedConfig &cfg);
// ends the session; if threads are still unfinished this is FAIL_UNJOINED (reported through the fail handler)
SchedResult session_end();
bool in_session();
int current_tid();
// Fail handler: called (on whichever thread detects it) for deadlock / budget / unjoined.
// It must not return into simulated code: it either _exit()s or never comes back.
typedef void (*FailHandler)(int failkind, const char *detail);
void set_fail_handler(FailHandler h);
// Access to the partial result of the running session (for the fail handler / crash reporting).
const SchedResult &current_partial();
const std::vector<int> &current_decisions();

// ---- event entry points used by hooks / spies / simulated files ----
void hook_event(int kind, const void *p1, const void *p2, unsigned long n);
void spy_event(bool enter, int stream);
void io_event(int kind, int file, long n);   // not a scheduling point; goes into the trace
void mem_access(const void *p, unsigned size, bool write);
bool atomic_cb_begin(const void *a, int kind);   // 'tsi' builds: atomic operation seen by the instrumentation callbacks
void atomic_cb_end(const void *a, int kind);
void mem_fresh(const void *p, unsigned long n);   // 'tsi' builds: a heap block was just allocated / is being freed   // 'tsi' builds: an instrumented load/store is about to happen
// monitor configuration
void monitor_set_ready_probe(bool (*is_ready)(const void *ctrl));
void monitor_set_bufsize(unsigned long sizeof_iobuffer);

} // namespace simsched
