// Scenario container, replay-file format, statistics, shared helpers.
#pragma once
#include <map>
#include <set>
#include <unordered_set>
#include <string>
#include <vector>
#include <cstdint>
#include "ops.h"

struct Rec {
  std::string kind;
  std::vector<long> a;
  Bytes data;
};

struct Scn {
  std::string prop, tier;
  uint64_t seed = 1;
  long index = 0;
  std::map<std::string, long> i;
  std::map<std::string, Bytes> b;
  std::map<int, std::vector<int>> dec;   // explicit schedule decisions per operation slot
  std::vector<Rec> faults, ops;
  long geti(const std::string &k, long d = 0) const { auto it = i.find(k); return it == i.end() ? d : it->second; }
  bool has(const std::string &k) const { return i.count(k) != 0; }
  const Bytes &getb(const std::string &k) const { static Bytes e; auto it = b.find(k); return it == b.end() ? e : it->second; }
};
std::string scn_serialize(const Scn &s);
bool scn_parse(const std::string &text, Scn &s);
bool scn_load(const std::string &path, Scn &s);
bool scn_save(const std::string &path, const Scn &s);
std::string hexs(const uint8_t *p, size_t n);
inline std::string hexs(const Bytes &b) { return hexs(b.data(), b.size()); }
std::string scn_summary(const Scn &s);   // one-line human readable

struct Verdict {
  bool violation = false;
  std::string cls;      // violation class, stable across minimisation
  std::string detail;
  std::string sig;      // signature used to match KNOWN_FINDINGS.txt (may be empty)
  bool skipped = false;
  std::string skip_reason;
  bool nontrivial = false;        // counts towards distinct_nontrivial
  uint64_t case_hash = 0;         // identity of the case for distinctness
  uint64_t trace_hash = FNV_INIT; // hash of everything observable in this run (for determinism checks)
};

struct Stats {
  std::map<std::string, long> c;
  std::unordered_set<uint64_t> distinct_cases, distinct_traces, distinct_sigs;
  std::vector<std::string> samples;
  void add(const std::string &k, long v = 1) { c[k] += v; }
  void max(const std::string &k, long v) { if (v > c[k]) c[k] = v; }
  void absorb(const simsched::SchedResult &r);
};
extern Stats g_stats;

// what a hang inside the currently running operation means for the running property
enum HangPolicy { HANG_VIOLATION = 0, HANG_SKIP = 1, HANG_MONITOR_ONLY = 2 /* report what the ownership monitor saw before the hang, else skip */ };

struct Ctx {
  const Scn *scn = nullptr;
  int slot = 0;                 // operation slot currently executing (for decisions)
  const char *opname = "";
  HangPolicy hang = HANG_VIOLATION;
  std::map<int, std::vector<int>> recorded;   // decisions recorded by finished operations
  std::string hang_cls_prefix;
  void (*hang_cb)(int kind, const char *detail) = nullptr;   // if set, replaces the default reporting (must not return)
};
extern Ctx g_ctx;

// ---- helpers shared by the property drivers
Bytes make_plain(long len, uint64_t pseed, int ptype, size_t CH);
long pick_len(Rng &g, size_t CH, int T);
void pick_sched(Rng &g, Scn &s, int slot, int T, bool allow_faults);
// bounded enumeration: schedule number j of a configuration: j < ENUM_SINGLE = the canonical schedule with ONE forced
// preemption at decision index j/3 to the (j%3)-th other runnable thread; then ENUM_SPUR schedules with ONE spurious
// wake-up at decision index q/3 of the (q%3)-th waiter; the rest: two such events at seeded positions
static const long ENUM_PER_CFG = 1200, ENUM_SINGLE = 450, ENUM_SPUR = 450, ENUM_MAXK = 150;
void enum_sched(Rng &g, Scn &s, int slot, long j);
simsched::SchedConfig sc_for(const Scn &s, int slot, long nbytes, int T);
simsched::SchedConfig sc_canonical(long nbytes, int T);
void fill_base(Rng &g, Scn &s, int Tmax_small);
OpSpec base_op(const Scn &s, int kind, int slot, SimFile *fin, SimFile *fout, long nbytes);
// run an operation of the current scenario; records decisions into g_ctx
OpResult run_slot(const Scn &s, OpSpec &op, int slot, const char *opname, HangPolicy hp);

// C18 on the command-line path (implemented next to C15's argv machinery)
Verdict run_C18_cli(const Scn &s);
Verdict run_C06_cli(const Scn &s);
Verdict run_C02_cli(const Scn &s);
Verdict run_C01_cli(const Scn &s);

// ---- property registry
typedef Verdict (*RunFn)(const Scn &);
typedef void (*GenFn)(const std::string &tier, uint64_t seed, long idx, Scn &out);
typedef long (*PlanFn)(const std::string &tier);
struct PropDef { const char *id; PlanFn plan; GenFn gen; RunFn run; };
const PropDef *find_prop(const std::string &id);

// wall-clock watchdog (SIGALRM) of the current process; remembers the CPU time consumed so far, so that the handler can
// tell a CPU loop from a process asleep in an unsimulated blocking primitive (main.cpp)
void arm_watchdog(int secs);
extern int g_wd_waiting_for_child;
struct ChildWait { ChildWait() { g_wd_waiting_for_child++; } ~ChildWait() { g_wd_waiting_for_child--; } };
