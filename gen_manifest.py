#!/usr/bin/env python3
# Regenerates MANIFEST.json from the table below (kept as a script so that the manifest stays consistent with ./check).
import json, subprocess, os
V = os.path.dirname(os.path.abspath(__file__))
hooks = subprocess.run(["git", "-C", "/repo", "log", "--format=%H %s"], capture_output=True, text=True).stdout.splitlines()
hook_commits = [l.split()[0] for l in hooks if "verif hook" in l]
CLAIMED = {
 "C01": ("exploration", "2,5", "seeded schedule/fault search over the real pipeline; exhaustive length windows around every chunk boundary at reduced chunk sizes plus the production 16 MiB constants; oracle: decrypt(encrypt(P)) == P and both return true"),
 "C02": ("exploration", "3,5", "refinement against an independent executable reference (OpenSSL) of the file format, byte for byte, on every simulated encryption"),
 "C03": ("exploration", "3,5,10.9,10.16", "many seeded schedules per input compared with the canonical schedule + address-free exactly-once ledger from cipher-stream spies; bounded enumeration of single preemptions / spurious wake-ups on small configurations; a variant with scheduling points at instrumented memory accesses (tsi) and scenarios run as first operations of a pristine process"),
 "C04": ("exploration", "2.2,5,10.9,10.16", "bounded liveness: scheduler reports 'nobody runnable, somebody unfinished', step budget, unjoined threads, wall watchdog for loops without scheduling points; spurious wake-ups, time-outs and starved threads injected; bounded enumeration; tsi variant (memory-access scheduling points)"),
 "C14": ("exploration", "3,5,10.16", "ownership monitor on every explored schedule: per-buffer phase automaton + vector-clock happens-before over simulated mutex / thread / atomic edges at the hooks, and in the tsi variant over every instrumented load/store of chunk-buffer memory"),
 "C18": ("exploration", "5", "IV of every cipher stream recovered from multi-chunk ciphertext produced by the simulated pipeline"),
}
NA = {
 "C07": "pure function of the message (digest of an in-memory/streamed byte string): no schedule, clock, fault or interleaving to simulate; the file-buffer refill path is exercised through C08",
 "C09": "pure function of (key, block); nothing for a simulator to schedule or fault",
 "C10": "sequential in-memory mode objects with a single caller; no nondeterminism to control (counter carries are still forced through the real pipeline in C02)",
 "C16": "pure functions of strings (base64 codec, key validator): no schedule, clock, fault or interleaving to simulate; the path from a -k string to the key the pipeline uses is still exercised end to end by the command-line scenarios of C02 (file equals the format for the RFC 4648 decoding of the string) and C06 (all 128 neighbour strings rejected)",
 "C17": "function of the argument vector; its defects are input-triggered, its thread/I-O behaviour is decided under C01-C04, repeated parsing under C15, and the option spellings that reach the kernel (order, = form, defaults, clusters) under C02's command-line scenario",
}
def main():
    extra = json.load(open(os.path.join(V, "manifest_extra.json"))) if os.path.exists(os.path.join(V, "manifest_extra.json")) else {}
    claimed = dict(CLAIMED); claimed.update({k: tuple(v) for k, v in extra.get("claimed", {}).items()})
    na = dict(NA); na.update(extra.get("not_applicable", {}))
    for k in claimed: na.pop(k, None)
    checks = []
    for pid in sorted(claimed):
        level, ref, text = claimed[pid]
        checks.append(dict(property_id=pid, quick_cmd="./check %s --tier quick" % pid, thorough_cmd="./check %s --tier thorough" % pid,
            evidence_file="evidence/%s.json" % pid, replay_cmd_template="./check replay {path}", engine="simrun",
            level_claimed=dict(category=level, text=text, design_ref="DESIGN.md section " + ref),
            level_note="trusted: glibc stdio, OpenSSL libcrypto (reference), the scheduler shim's model of std::mutex/condition_variable/thread; interleavings at synchronisation/hook granularity; sampled, not exhaustive, unless the evidence says so",
            technique="deterministic simulation with fault injection (seeded scheduler over real parked threads, simulated files, storage/crash faults)"))
    m = dict(version=1, setup_cmd="./check selftest build",
        hooks=dict(guard="WENCRY_VERIF", enable="./check compiles /repo's kernel/ and valget/ sources itself with -DWENCRY_VERIF [-DWENCRY_VERIF_BUF_BLOCKS=n -DWENCRY_VERIF_HBUF_BLOCKS=m] and -include sim/sim_std.h",
                   baseline_off_cmd="./check baseline-off", source_commits=hook_commits, add_only=True),
        engines=[dict(name="simrun", path="sim/", serves_properties=sorted(claimed), kind_free_text="deterministic simulator: baton-passing scheduler over real parked threads (std::mutex/condition_variable/thread/atomic and the rest of the standard blocking vocabulary replaced by forced include, function-local-static guards wrapped at link time; optional -fsanitize=thread instrumentation routed into the scheduler), fopencookie file layer with storage/crash faults, OpenSSL reference model, ownership and exactly-once monitors, fork-based fresh-process oracle; driven by ./check")],
        checks=checks, not_applicable=[dict(property_id=k, reason=v) for k, v in sorted(na.items())],
        notes="See DESIGN.md. Known findings: KNOWN_FINDINGS.txt.")
    json.dump(m, open(os.path.join(V, "MANIFEST.json"), "w"), indent=1)
main()
