#!/bin/bash
# usage: tools/seeded_verify.sh <seeded-dir-name>   e.g. C13-1
# Confirms in a fresh scratch worktree of /repo (removed afterwards): demo passes without the change,
# stable tests pass with the change, demo fails with the change.
ID="$1"; SD="/verif/seeded/$ID"; W="/tmp/sv-$ID"
git -C /repo worktree add -q --detach "$W" HEAD || exit 2
mkdir -p "$W/seeded" && cp -r "$SD"/. "$W/seeded/" && chmod +x "$W"/seeded/*.sh 2>/dev/null
DEMO="$W/seeded/demo.sh"
run_demo() { if [ -x "$DEMO" ]; then (cd "$W" && timeout 900 "$DEMO" > "$W/demo.out" 2>&1); echo $?; else echo "nodemo"; fi; }
R0=$(run_demo); echo "demo without change: exit $R0 ($(tail -1 $W/demo.out 2>/dev/null | cut -c1-120))"
{ git -C "$W" apply "$SD/patch.diff" 2>/dev/null || git -C "$W" apply -3 "$SD/patch.diff"; } || { echo "PATCH DOES NOT APPLY"; git -C /repo worktree remove --force "$W"; exit 2; }
ST=$(/tmp/mut/run_stable.sh "$W" 2>&1 | tail -1); echo "stable tests with change: $ST"
R1=$(run_demo); echo "demo with change: exit $R1 ($(tail -1 $W/demo.out 2>/dev/null | cut -c1-120))"
git -C /repo worktree remove --force "$W"

[ "$R0" = "0" ] && [ "$R1" != "0" ] && [[ "$ST" == PASS* ]] && { echo "CONFIRMED $ID"; exit 0; }
echo "NOT CONFIRMED $ID"; exit 1
