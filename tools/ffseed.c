// One-off search for seed strings whose SHA-1 has N trailing 0xFF bytes inside the first 16 bytes
// (IV_0[16-N..16)), so that the CTR counter carries across N bytes in the real pipeline.
// usage: ffseed <N> <nthreads> <count>      prints hex seed strings (no NUL bytes)
#include <openssl/sha.h>
#include <pthread.h>
#include <stdint.h>
#include <stdio.h>
#include <stdlib.h>
#include <string.h>
static int N, want;
static volatile int found = 0;
static pthread_mutex_t mu = PTHREAD_MUTEX_INITIALIZER;
static void *work(void *arg) {
  uint64_t t = (uint64_t)(intptr_t)arg;
  unsigned char s[12], h[20];
  for (uint64_t c = 1; found < want; c++) {
    // 12 bytes from (thread, counter), all non-zero: 7 bits per byte + 0x80... keep it simple: map nibbles to 'a'..'p'
    uint64_t v = c;
    s[0] = 'A' + (t % 26); s[1] = 'A' + ((t / 26) % 26);
    for (int i = 2; i < 12; i++) { s[i] = 'a' + (v & 15); v >>= 4; }
    SHA1(s, 12, h);
    int ok = 1;
    for (int k = 0; k < N; k++) if (h[15 - k] != 0xFF) { ok = 0; break; }
    if (ok) {
      pthread_mutex_lock(&mu);
      if (found < want) { found++; for (int i = 0; i < 12; i++) printf("%02x", s[i]); printf("\n"); fflush(stdout); }
      pthread_mutex_unlock(&mu);
    }
  }
  return 0;
}
int main(int argc, char **argv) {
  N = atoi(argv[1]); int nt = atoi(argv[2]); want = atoi(argv[3]);
  pthread_t th[64];
  for (int i = 0; i < nt; i++) pthread_create(&th[i], 0, work, (void *)(intptr_t)i);
  for (int i = 0; i < nt; i++) pthread_join(th[i], 0);
  return 0;
}
