#!/usr/bin/env python3
"""Regenerates the seeded-change table in DESIGN.md (between the SEEDED-TABLE markers) from seeded/*/meta.json and checks_result.json."""
import json, glob, os, re
V = os.path.dirname(os.path.dirname(os.path.abspath(__file__)))
ALL = ["C01","C02","C03","C04","C05","C06","C08","C11","C12","C13","C14","C15","C18"]
rows = []
for d in sorted(glob.glob(os.path.join(V, "seeded", "*"))):
    rp = os.path.join(d, "checks_result.json"); mp = os.path.join(d, "meta.json")
    if not (os.path.exists(rp) and os.path.exists(mp)):
        continue
    res = json.load(open(rp)); meta = json.load(open(mp))
    row = [{0: "·", 1: "**X**" if p == meta["property"] else "x", 2: "?"}.get(res.get(p, {}).get("exit"), "-") for p in ALL]
    cls = [l for l in res.get(meta["property"], {}).get("lines", []) if l.startswith("  class=")]
    c = cls[0].split()[0].replace("class=", "") if cls else ""
    summ = meta["summary"].replace("|", "/")
    if meta.get("obsolete_since"):
        summ = "[no longer a defect since " + meta["obsolete_since"].split(":")[0] + ": the property holds with this change on the repaired tree] " + summ
    rows.append("| %s | %s | %s | `%s` | %s |" % (os.path.basename(d), meta["property"], summ[:150] + ("…" if len(summ) > 150 else ""), c, " ".join(row)))
table = "| id | target | change (abridged) | class reported by the target check | checks |\n|---|---|---|---|---|\n" + "\n".join(rows) + "\n"
p = os.path.join(V, "DESIGN.md")
s = open(p).read()
s2 = re.sub(r"<!-- SEEDED-TABLE-BEGIN -->.*?<!-- SEEDED-TABLE-END -->", "<!-- SEEDED-TABLE-BEGIN -->\n" + table + "<!-- SEEDED-TABLE-END -->", s, flags=re.S)
open(p, "w").write(s2)
caught = sum(1 for r in rows if "**X**" in r)
obs = sum(1 for d in glob.glob(os.path.join(V, "seeded", "*", "meta.json")) if json.load(open(d)).get("obsolete_since"))
na = sum(1 for d in glob.glob(os.path.join(V, "seeded", "*", "meta.json")) if json.load(open(d))["property"] not in ALL)
print("%d seeded changes, %d caught by their target check, %d made harmless by a later fix, %d aimed at a property that is not claimed" % (len(rows), caught, obs, na))
