#!/bin/bash
# usage: tools/sens_run.sh <patch.diff> <Cxx> [Cxx ...]  -- applies the patch to a scratch worktree of /repo and runs quick checks against it
set -u
D=/tmp/sens-$$
git -C /repo worktree add -q --detach $D HEAD || exit 2
{ git -C $D apply "$(realpath "$1")" 2>/dev/null || git -C $D apply -3 "$(realpath "$1")"; } || { git -C /repo worktree remove --force $D; exit 2; }
shift
for p in "$@"; do
  out=$(WENCRY_REPO=$D VERIF_WALL=${VERIF_WALL:-30} /verif/check $p --tier quick 2>/dev/null)
  rc=$?
  echo "$p exit=$rc $(echo "$out" | grep -m1 '  class=' | cut -c1-200)"
done
git -C /repo worktree remove --force $D
SUF=$(python3 -c "import hashlib,os;print(hashlib.md5(os.path.realpath('$D').encode()).hexdigest()[:6])"); rm -rf /verif/build-alt-$SUF /verif/out-alt-$SUF
