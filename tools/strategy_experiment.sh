#!/bin/bash
# usage: tools/strategy_experiment.sh <seeded-id> <Cxx> [runs]   -- violations found per strategy on a seeded change (scratch worktree)
SID=$1; PROP=$2; N=${3:-4000}; W=/tmp/strat-$SID
git -C /repo worktree add -q --detach $W HEAD || exit 2
git -C $W apply /verif/seeded/$SID/patch.diff
exe=$(WENCRY_REPO=$W python3 - <<'PY'
import importlib.machinery, importlib.util
l=importlib.machinery.SourceFileLoader('chk','/verif/check'); sp=importlib.util.spec_from_loader('chk',l); c=importlib.util.module_from_spec(sp); l.exec_module(c)
print(c.build('c32','plain'))
PY
)
mkdir -p /verif/out/strat
for st in 0 1 2 3 4 5; do
  v=0; first=999999
  for w in 0 1 2 3 4 5 6 7; do
    out=$(SIM_FORCE_STRATEGY=$st $exe batch $PROP quick 1 $w 8 --outdir /verif/out/strat --limit $N --maxviol 100000 2>/dev/null | grep "^V ")
    n=$(echo -n "$out" | grep -c "^V ")
    f=$(echo "$out" | head -1 | awk '{print $2}')
    [ -n "$f" ] && [ "$f" -lt "$first" ] && first=$f
    v=$((v+n))
  done
  echo "$SID $PROP strategy=$st first_violating_run=$first violations_reported=$v (workers stop at their first hang) of $N runs"
done
git -C /repo worktree remove --force $W; SUF=$(python3 -c "import hashlib,os;print(hashlib.md5(os.path.realpath('$W').encode()).hexdigest()[:6])"); rm -rf /verif/build-alt-$SUF /verif/out-alt-$SUF /verif/out/strat
