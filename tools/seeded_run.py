#!/usr/bin/env python3
"""Apply a seeded change to /repo, run the given checks (quick tier), undo the change.
usage: tools/seeded_run.py <seeded-id> [Cxx ...]     (default: the property named in meta.json, then all others)
Evidence files are redirected so that committed evidence is not overwritten."""
import sys, os, json, subprocess, time
V = os.path.dirname(os.path.dirname(os.path.abspath(__file__)))
ALL = ["C01","C02","C03","C04","C05","C06","C08","C11","C12","C13","C14","C15","C18"]
def main():
    scratch = "--scratch" in sys.argv      # use a scratch worktree + WENCRY_REPO instead of patching /repo (when /repo is in use)
    if scratch:
        sys.argv.remove("--scratch")
    sid = sys.argv[1]
    d = os.path.join(V, "seeded", sid)
    meta = json.load(open(os.path.join(d, "meta.json"))) if os.path.exists(os.path.join(d, "meta.json")) else {}
    props = sys.argv[2:] or ([meta.get("property")] if meta.get("property") else []) + [p for p in ALL if p != meta.get("property")]
    target = "/repo"
    if scratch:
        target = "/tmp/seedrun-" + sid
        subprocess.run(["git", "-C", "/repo", "worktree", "add", "-q", "--detach", target, "HEAD"], check=True)
    st = subprocess.run(["git", "-C", target, "status", "--porcelain"], capture_output=True, text=True).stdout.strip()
    if st:
        print("refusing: %s has local changes:\n" % target + st); return 2
    r = subprocess.run(["git", "-C", target, "apply", os.path.join(d, "patch.diff")], capture_output=True, text=True)
    if r.returncode != 0:   # written against an earlier HEAD of /repo: three-way
        r = subprocess.run(["git", "-C", target, "apply", "-3", os.path.join(d, "patch.diff")], capture_output=True, text=True)
    if r.returncode != 0:
        print("patch does not apply: " + r.stderr); return 2
    env = dict(os.environ);
    if scratch:
        env["WENCRY_REPO"] = target
    env["VERIF_EVIDENCE_DIR"] = os.path.join(V, "out", "seeded-evidence"); env.setdefault("VERIF_WALL", "40")
    results = {}
    try:
        for p in props:
            t0 = time.time()
            r = subprocess.run([os.path.join(V, "check"), p, "--tier", "quick"], capture_output=True, text=True, cwd=V, env=env)
            viol = [l for l in r.stdout.splitlines() if l.startswith("VIOLATION") or l.startswith("  class=")]
            results[p] = dict(exit=r.returncode, wall_s=round(time.time() - t0, 1), lines=[l[:300] for l in viol[:6]])
            print("%s %s: exit %d in %.0fs %s" % (sid, p, r.returncode, time.time() - t0, (viol[1][:160] if len(viol) > 1 else "")), flush=True)
    finally:
        if scratch:
            subprocess.run(["git", "-C", "/repo", "worktree", "remove", "--force", target], check=False)
            suf = __import__("hashlib").md5(os.path.realpath(target).encode()).hexdigest()[:6]; subprocess.run("rm -rf /verif/build-alt-%s /verif/out-alt-%s" % (suf, suf), shell=True)
        else:
            subprocess.run(["git", "-C", "/repo", "checkout", "--", "."], check=True)
            subprocess.run(["git", "-C", "/repo", "clean", "-fdq", "--", "kernel", "valget"], check=False)
    rp = os.path.join(d, "checks_result.json")
    merged = json.load(open(rp)) if os.path.exists(rp) else {}
    merged.update(results)      # a partial re-run refreshes only the checks it ran
    json.dump(merged, open(rp, "w"), indent=1, sort_keys=True)
    return 0
sys.exit(main())
