#!/usr/bin/env python3
"""Run every quick check against each behaviour-preserving refactoring patch in refactors/<set>/patchN.diff (scratch worktree).
usage: tools/refactor_run.py <set> [patch numbers...]   -- any exit != 0 is a false alarm to be analysed."""
import sys, os, json, subprocess, glob, time
V = os.path.dirname(os.path.dirname(os.path.abspath(__file__)))
ALL = ["C01","C02","C03","C04","C05","C06","C08","C11","C12","C13","C14","C15","C18"]
def main():
    sset = sys.argv[1]
    d = os.path.join(V, "refactors", sset)
    patches = sorted(glob.glob(os.path.join(d, "patch*.diff")))
    if len(sys.argv) > 2:
        patches = [p for p in patches if any(os.path.basename(p) == "patch%s.diff" % n for n in sys.argv[2:])]
    out = {}
    rp = os.path.join(d, "checks_result.json")
    if os.path.exists(rp):
        out = json.load(open(rp))
    for pth in patches:
        name = os.path.basename(pth)
        target = "/tmp/refrun-%s-%s" % (sset, name.replace(".diff", ""))
        subprocess.run(["git", "-C", "/repo", "worktree", "add", "-q", "--detach", target, "HEAD"], check=True)
        try:
            r = subprocess.run(["git", "-C", target, "apply", pth], capture_output=True, text=True)
            if r.returncode != 0:   # written against an earlier HEAD of /repo: three-way
                r = subprocess.run(["git", "-C", target, "apply", "-3", pth], capture_output=True, text=True)
            if r.returncode != 0:
                print("%s %s: patch does not apply: %s" % (sset, name, r.stderr.strip()[:200])); out[name] = {"apply": "failed"}; continue
            env = dict(os.environ); env["WENCRY_REPO"] = target; env["VERIF_EVIDENCE_DIR"] = os.path.join(V, "out", "refactor-evidence"); env.setdefault("VERIF_WALL", "40")
            res = {}
            for p in ALL:
                t0 = time.time()
                r = subprocess.run([os.path.join(V, "check"), p, "--tier", "quick"], capture_output=True, text=True, cwd=V, env=env)
                lines = [l[:300] for l in r.stdout.splitlines() if l.startswith(("VIOLATION", "  class=", "ERROR", "UNDECIDED"))][:6]
                res[p] = dict(exit=r.returncode, wall_s=round(time.time() - t0, 1), lines=lines)
                print("%s %s %s: exit %d in %.0fs %s" % (sset, name, p, r.returncode, time.time() - t0, (lines[1][:160] if len(lines) > 1 else (lines[0][:160] if lines else ""))), flush=True)
            out[name] = res
        finally:
            subprocess.run(["git", "-C", "/repo", "worktree", "remove", "--force", target], check=False)
            suf = __import__("hashlib").md5(os.path.realpath(target).encode()).hexdigest()[:6]; subprocess.run("rm -rf /verif/build-alt-%s /verif/out-alt-%s" % (suf, suf), shell=True)
        json.dump(out, open(rp, "w"), indent=1, sort_keys=True)
    return 0
sys.exit(main())
