#!/bin/bash
# re-runs, for every seeded change, the check of its target property (scratch worktree); prints one line each
cd /verif
for d in seeded/*/; do
  id=$(basename $d)
  p=$(python3 -c "import json;print(json.load(open('$d/meta.json'))['property'])")
  tools/seeded_run.py --scratch $id $p 2>&1 | grep -v "^\[build" | cut -c1-200
done
